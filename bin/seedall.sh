#!/bin/bash
# Re-applies every stored seeded change to /repo, runs the quick check of its property (and of the extra
# properties listed in meta.json "also"), reverts, and reports which checks exit 1.
# Usage: bin/seedall.sh [name ...]      (no /repo edits may be pending; nothing else may use /repo meanwhile)
cd /verif
names=${@:-$(cd seeded && ls -d */ | tr -d /)}
if [ -n "$(git -C /repo status --porcelain)" ]; then echo "/repo has pending changes"; exit 2; fi
for n in $names; do
  d=seeded/$n
  prop=$(python3 -c "import json;print(json.load(open('$d/meta.json'))['property'])")
  git -C /repo apply /verif/$d/patch.diff || { echo "$n: patch does not apply"; continue; }
  bin/check $prop --tier quick > out/seedall_$n.txt 2>&1; rc=$?
  git -C /repo checkout -- .
  echo "$n property=$prop check_rc=$rc $(grep -c '^VIOLATION' out/seedall_$n.txt) violation lines"
done
