"""Per-property checks.  Each check_<id>(rep, tier) runs TLC on the property's bounded
instance, replays every emitted scenario through the real library, validates recorded
implementation traces against the trace specification, and reports mismatches."""
import json
import os
import subprocess

import vlib
from vlib import ToolError, Sharder, run_tlc, require_clean, validate_trace, run_itv, log, scn_key

LEVEL = {"C14": "exploration"}

FAMILIES = ["ed25519", "ecdsa", "rsa2048-256", "rsa2048-512", "rsa4096-256", "rsa4096-512"]


def families_for(tier):
    if tier == "thorough":
        return FAMILIES
    return ["ed25519", FAMILIES[1 + vlib.seed() % (len(FAMILIES) - 1)]]


def replay_file(prop, path):
    """Re-run one recorded case and print expected vs actual."""
    with open(path) as f:
        obj = json.load(f)
    case = obj.get("case", {})
    scn = case.get("scn")
    if scn is None:
        print(json.dumps(obj, indent=1))
        return 0
    env = dict(os.environ)
    env.update(case.get("env", {}))
    p = subprocess.run([vlib.ITV, "replay"], input=json.dumps(scn) + "\n", text=True, capture_output=True, env=env,
                       cwd=vlib.OUT)
    print("scenario:", json.dumps(scn))
    print("expected (allowed):", scn.get("allow"), " recorded actual:", case.get("actual"))
    print("actual now:", p.stdout.strip())
    return 0


def generic_outs(res):
    if "outs" in res:
        return res["outs"]
    if "out" in res:
        return [res["out"]]
    return ["harness:" + json.dumps(res)[:200]]


# ----------------------------------------------------------------------------- C04
def check_C04(rep, tier):
    rep.cov["rule"] = ("TLC enumerates every (threshold, authorised-key list, signature list) inside the bounds and "
                       "every visiting order; each is concretised with real keys and run through Metablock::verify "
                       "for every permutation of both lists.  Non-trivial = at least one signature that must NOT "
                       "count (mislabelled, corrupted, unauthorised or duplicate) or threshold not in 1..|auth|.")
    cfg = f"MC_C04_{tier}.cfg"
    fams = families_for(tier)
    allow = {}
    algo = {}
    sh = Sharder("C04")
    seen = {}

    def on_scn(s):
        k = scn_key(s)
        if k in seen:
            algo[seen[k]].add(s["out"])
            return
        i = sh.add(s)
        seen[k] = i
        allow[i] = s["allow"]
        algo[i] = {s["out"]}
        sigs = s["sigs"]
        bad = any((not x["ok"]) or x["kid"] != x["by"] or x["kid"] not in s["auth"] for x in sigs) \
            or len({x["kid"] for x in sigs}) < len(sigs) or not (1 <= s["t"] <= len(set(s["auth"])))
        if bad:
            rep.nontrivial(k)
        if i % 9973 == 0:
            rep.sample({"scenario": {k2: s[k2] for k2 in ("t", "auth", "sigs")}, "allowed": s["allow"]})

    st = run_tlc("MC_C04", cfg, "c04", on_scn=on_scn)
    require_clean(st, "MC_C04")
    rep.add_tlc(st, "MC_C04")
    rep.vacuity(["CheckEmpty", "CheckThr", "Maps", "Finish", "MNext"])
    rep.cov["exhaustive"] = True
    log(f"C04: {sh.count} scenarios from TLC in {st.wall:.0f}s")
    nrun = 0
    for fam in fams:
        sh.run(env_extra={"ITV_FAMILY": fam})
        for r in sh.results():
            i = r["i"]
            nrun += r.get("runs", 1)
            outs = generic_outs(r)
            for o in outs:
                if o not in allow[i]:
                    rep.mismatch({"kind": "outcome", "actual": o, "allowed": allow[i], "family": fam},
                                 lambda i=i, outs=outs, fam=fam: {"scn": sh.scenario(i), "actual": outs, "env": {"ITV_FAMILY": fam}})
            if not r.get("ret_ok", True):
                rep.mismatch({"kind": "returned_content_differs", "family": fam},
                             lambda i=i, outs=outs, fam=fam: {"scn": sh.scenario(i), "actual": outs, "env": {"ITV_FAMILY": fam}})
            if not (set(outs) & algo[i]):
                rep.cov["drift"] += 1
    rep.cov["evaluations"] = nrun
    rep.cov["traces_validated_against_impl"] = sh.count * len(fams)
    rep.cov["key_families"] = fams
    sh.cleanup()
    # impl -> spec: random runs beyond the TLC bounds, validated as traces
    n = 3000 if tier == "quick" else 30000
    trace = os.path.join(vlib.OUT, "c04.trace.ndjson")
    for fam in fams[:2]:
        run_itv(["record", "C04", str(n)], stdout_path=trace, env_extra={"ITV_FAMILY": fam})
        total, rejected, tst = validate_trace(trace, "Trace_Metablock", "Trace_Metablock.cfg", "t04")
        rep.cov["traces_validated_against_impl"] += total - len(rejected)
        rep.cov["parts"][f"trace_{fam}"] = {"runs": total, "rejected": len(rejected), "states": tst.distinct}
        for rj in rejected:
            rep.mismatch({"kind": "trace_rejected", "event": rj["event"], "family": fam},
                         {"trace": rj["lines"], "at": rj["at"], "env": {"ITV_FAMILY": fam}})
        if total:
            with open(trace) as f:
                rep.sample({"trace_prefix": [json.loads(x) for x in f.read().split("\n")[:4] if x]})
    os.remove(trace)
    rep.assumptions += ["signatures are unforgeable and key ids injective (Crypto abstraction); ring is trusted",
                        "bounds: auth and signature lists up to the cfg constants over 3 authorised keys + 1 foreign key",
                        "'each key signs at most once' read as: no two signatures share a claimed id or a signer"]


# ----------------------------------------------------------------------------- C03
def check_C03(rep, tier):
    rep.cov["rule"] = ("TLC enumerates rule lists (all single rules over a 57-rule alphabet, ordered pairs, in either or both "
                       "lists) x item link states x referenced-step states; each is run through the real rule engine "
                       "(verif::apply_rules) and the verdict must EQUAL the specification's.  Seeded random scenarios "
                       "beyond the bounds are validated step by step as traces.  Non-trivial = the specification "
                       "rejects, or at least one rule consumes a proper, non-empty part of the queue.")
    allow = {}
    devs = {}
    sh = Sharder("C03")
    nrej = [0]

    def on_scn(s):
        i = sh.add({k: s[k] for k in ("m", "item", "links")})
        allow[i] = s["out"]
        if s["dv"]:
            devs[i] = {d["d"]: d["out"] for d in s["dv"]}
        if s["out"] == "err":
            nrej[0] += 1
            rep.nontrivial(i)
        elif s["dv"]:
            rep.nontrivial(i)
        if i % 60013 == 1:
            rep.sample({"scenario": {"item": s["item"], "links": s["links"]}, "allowed": [s["out"]]})

    st = run_tlc("MC_C03", f"MC_C03_{tier}.cfg", "c03", on_scn=on_scn, timeout=3000)
    require_clean(st, "MC_C03")
    rep.add_tlc(st, "MC_C03")
    rep.vacuity(["Apply", "NextList"])
    rep.cov["exhaustive"] = True
    rep.cov["spec_rejects"] = nrej[0]
    log(f"C03: {sh.count} scenarios from TLC in {st.wall:.0f}s")
    sh.run()
    n = 0
    for r in sh.results():
        i = r["i"]
        n += 1
        o = r.get("out", "harness")
        if o != allow[i]:
            sig = {"kind": "outcome", "actual": o, "allowed": [allow[i]]}
            ex = [d for d, out in devs.get(i, {}).items() if out == o]
            if len(ex) >= 1:
                sig["dev"] = sorted(ex)[0]
            rep.mismatch(sig, lambda i=i, o=o: {"scn": dict(sh.scenario(i), allow=[allow[i]]), "actual": o})
    rep.cov["evaluations"] = n
    rep.cov["traces_validated_against_impl"] = n
    sh.cleanup()
    ntr = 4000 if tier == "quick" else 40000
    trace = os.path.join(vlib.OUT, "c03.trace.ndjson")
    run_itv(["record", "C03", str(ntr)], stdout_path=trace)
    total, rejected, tst = validate_trace(trace, "Trace_Rules", "Trace_Rules.cfg", "t03")
    rep.cov["traces_validated_against_impl"] += total - len(rejected)
    rep.cov["parts"]["trace"] = {"runs": total, "rejected": len(rejected), "states": tst.distinct}
    for rj in rejected:
        ev = rj["lines"][rj["at"] - 1] if 0 < rj["at"] <= len(rj["lines"]) else None
        rep.mismatch({"kind": "trace_rejected", "event_kind": (json.loads(ev).get("kind") if ev else None)},
                     {"trace": rj["lines"], "at": rj["at"], "event": ev})
    with open(trace) as f:
        rep.sample({"trace_prefix": [json.loads(x) for x in f.read().split("\n")[:3] if x]})
    os.remove(trace)
    rep.assumptions += ["paths are normalised and relative, patterns use the portable syntax (* ? literals); the only uninterpretable pattern exercised is '[' in DISALLOW",
                        "glob::Pattern with default options is trusted as the fnmatch implementation",
                        "digests are compared as whole algorithm->value maps; sha256 only"]
