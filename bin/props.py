"""Per-property checks.  Each check_<id>(rep, tier) runs TLC on the property's bounded
instance, replays every emitted scenario through the real library, validates recorded
implementation traces against the trace specification, and reports mismatches."""
import json
import os
import random
import subprocess

import vlib
from vlib import ToolError, Sharder, run_tlc, require_clean, validate_trace, run_itv, log, scn_key

LEVEL = {"C14": "exploration"}

FAMILIES = ["ed25519", "ecdsa", "rsa2048-256", "rsa2048-512", "rsa4096-256", "rsa4096-512"]


def families_for(tier):
    if tier == "thorough":
        return FAMILIES
    return ["ed25519", FAMILIES[1 + vlib.seed() % (len(FAMILIES) - 1)]]


def types_for(tier):
    """one family per KEY TYPE (ed25519, ECDSA, RSA-PSS variant by seed) - for checks that exercise the scheme dispatch"""
    if tier == "thorough":
        return FAMILIES
    return ["ed25519", "ecdsa", FAMILIES[2 + vlib.seed() % 4]]


def replay_file(prop, path):
    """Re-run one recorded case and print expected vs actual."""
    with open(path) as f:
        obj = json.load(f)
    case = obj.get("case", {})
    scn = case.get("scn")
    if scn is None:
        print(json.dumps(obj, indent=1))
        return 0
    env = dict(os.environ)
    env.update(case.get("env", {}))
    p = subprocess.run([vlib.ITV, "replay"], input=json.dumps(scn) + "\n", text=True, capture_output=True, env=env,
                       cwd=vlib.OUT)
    print("scenario:", json.dumps(scn))
    print("expected (allowed):", scn.get("allow"), " recorded actual:", case.get("actual"))
    print("actual now:", p.stdout.strip())
    return 0


def last_json(text):
    """last line of harness output that is a JSON object (the library prints debug text to stdout in places)"""
    for line in reversed(text.strip().split("\n")):
        if line.startswith("{"):
            try:
                return json.loads(line)
            except json.JSONDecodeError:
                continue
    raise ToolError("no JSON result in harness output")


def generic_outs(res):
    if "outs" in res:
        return res["outs"]
    if "out" in res:
        return [res["out"]]
    return ["harness:" + json.dumps(res)[:200]]


# ----------------------------------------------------------------------------- C04
def check_C04(rep, tier):
    rep.cov["rule"] = ("TLC enumerates every (threshold, authorised-key list, signature list) inside the bounds and "
                       "every visiting order; each is concretised with real keys and run through Metablock::verify "
                       "for every permutation of both lists.  Non-trivial = at least one signature that must NOT "
                       "count (mislabelled, corrupted, unauthorised or duplicate) or threshold not in 1..|auth|.")
    cfg = f"MC_C04_{tier}.cfg"
    fams = types_for(tier)
    allow = {}
    algo = {}
    sh = Sharder("C04")
    seen = {}

    def on_scn(s):
        k = scn_key(s)
        if k in seen:
            algo[seen[k]].add(s["out"])
            return
        i = sh.add(s)
        seen[k] = i
        allow[i] = s["allow"]
        algo[i] = {s["out"]}
        sigs = s["sigs"]
        bad = any((not x["ok"]) or x["kid"] != x["by"] or x["kid"] not in s["auth"] for x in sigs) \
            or len({x["kid"] for x in sigs}) < len(sigs) or not (1 <= s["t"] <= len(set(s["auth"])))
        if bad:
            rep.nontrivial(k)
        if i % 9973 == 0:
            rep.sample({"scenario": {k2: s[k2] for k2 in ("t", "auth", "sigs")}, "allowed": s["allow"]})

    st = run_tlc("MC_C04", cfg, "c04", on_scn=on_scn)
    require_clean(st, "MC_C04")
    rep.add_tlc(st, "MC_C04")
    rep.vacuity(["CheckEmpty", "CheckThr", "Maps", "Finish", "MNext"])
    rep.cov["exhaustive"] = True
    log(f"C04: {sh.count} scenarios from TLC in {st.wall:.0f}s")
    nrun = 0
    for fam in fams:
        sh.run(env_extra={"ITV_FAMILY": fam})
        for r in sh.results():
            i = r["i"]
            nrun += r.get("runs", 1)
            outs = generic_outs(r)
            for o in outs:
                if o not in allow[i]:
                    rep.mismatch({"kind": "outcome", "actual": o, "allowed": allow[i], "family": fam},
                                 lambda i=i, outs=outs, fam=fam: {"scn": sh.scenario(i), "actual": outs, "env": {"ITV_FAMILY": fam}})
            if not r.get("ret_ok", True):
                rep.mismatch({"kind": "returned_content_differs", "family": fam},
                             lambda i=i, outs=outs, fam=fam: {"scn": sh.scenario(i), "actual": outs, "env": {"ITV_FAMILY": fam}})
            if not (set(outs) & algo[i]):
                rep.cov["drift"] += 1
    rep.cov["evaluations"] = nrun
    rep.cov["traces_validated_against_impl"] = sh.count * len(fams)
    rep.cov["key_families"] = fams
    sh.cleanup()
    # impl -> spec: random runs beyond the TLC bounds, validated as traces
    n = 3000 if tier == "quick" else 30000
    trace = os.path.join(vlib.OUT, "c04.trace.ndjson")
    for fam in fams[:2]:
        run_itv(["record", "C04", str(n)], stdout_path=trace, env_extra={"ITV_FAMILY": fam})
        total, rejected, tst = validate_trace(trace, "Trace_Metablock", "Trace_Metablock.cfg", "t04")
        rep.cov["traces_validated_against_impl"] += total - len(rejected)
        rep.cov["parts"][f"trace_{fam}"] = {"runs": total, "rejected": len(rejected), "states": tst.distinct}
        for rj in rejected:
            rep.mismatch({"kind": "trace_rejected", "event": rj["event"], "family": fam},
                         {"trace": rj["lines"], "at": rj["at"], "env": {"ITV_FAMILY": fam}})
        if total:
            with open(trace) as f:
                rep.sample({"trace_prefix": [json.loads(x) for x in f.read().split("\n")[:4] if x]})
    os.remove(trace)
    rep.assumptions += ["signatures are unforgeable and key ids injective (Crypto abstraction); ring is trusted",
                        "bounds: auth and signature lists up to the cfg constants over 3 authorised keys + 1 foreign key",
                        "'each key signs at most once' read as: no two signatures share a claimed id or a signer"]


# ----------------------------------------------------------------------------- C03
def check_C03(rep, tier):
    rep.cov["rule"] = ("TLC enumerates rule lists (all single rules over a 57-rule alphabet, ordered pairs, in either or both "
                       "lists) x item link states x referenced-step states; each is run through the real rule engine "
                       "(verif::apply_rules) and the verdict must EQUAL the specification's.  Seeded random scenarios "
                       "beyond the bounds are validated step by step as traces.  A second instance (MC_C03P over Verify.tla) "
                       "covers the pipeline: which items have a link when a step's / an inspection's rules are processed (a MATCH "
                       "naming an inspection, a later step, the step itself, nothing).  Non-trivial = the specification "
                       "rejects, or at least one rule consumes a proper, non-empty part of the queue.")
    allow = {}
    devs = {}
    sh = Sharder("C03")
    nrej = [0]

    def on_scn(s):
        i = sh.add({k: s[k] for k in ("m", "item", "links")})
        allow[i] = s["out"]
        if s["dv"]:
            devs[i] = {d["d"]: d["out"] for d in s["dv"]}
        if s["out"] == "err":
            nrej[0] += 1
            rep.nontrivial(i)
        elif s["dv"]:
            rep.nontrivial(i)
        if i % 60013 == 1:
            rep.sample({"scenario": {"item": s["item"], "links": s["links"]}, "allowed": [s["out"]]})

    st = run_tlc("MC_C03", f"MC_C03_{tier}.cfg", "c03", on_scn=on_scn, timeout=3000)
    require_clean(st, "MC_C03")
    rep.add_tlc(st, "MC_C03")
    rep.vacuity(["Apply", "NextList"])
    rep.cov["exhaustive"] = True
    rep.cov["spec_rejects"] = nrej[0]
    log(f"C03: {sh.count} scenarios from TLC in {st.wall:.0f}s")
    sh.run()
    n = 0
    for r in sh.results():
        i = r["i"]
        n += 1
        o = r.get("out", "harness")
        if o != allow[i]:
            sig = {"kind": "outcome", "actual": o, "allowed": [allow[i]]}
            ex = [d for d, out in devs.get(i, {}).items() if out == o]
            if len(ex) >= 1:
                sig["dev"] = sorted(ex)[0]
            rep.mismatch(sig, lambda i=i, o=o: {"scn": dict(sh.scenario(i), allow=[allow[i]]), "actual": o})
    rep.cov["evaluations"] = n
    rep.cov["traces_validated_against_impl"] = n
    sh.cleanup()
    ntr = 4000 if tier == "quick" else 40000
    trace = os.path.join(vlib.OUT, "c03.trace.ndjson")
    run_itv(["record", "C03", str(ntr)], stdout_path=trace)
    total, rejected, tst = validate_trace(trace, "Trace_Rules", "Trace_Rules.cfg", "t03")
    rep.cov["traces_validated_against_impl"] += total - len(rejected)
    rep.cov["parts"]["trace"] = {"runs": total, "rejected": len(rejected), "states": tst.distinct}
    for rj in rejected:
        ev = rj["lines"][rj["at"] - 1] if 0 < rj["at"] <= len(rj["lines"]) else None
        rep.mismatch({"kind": "trace_rejected", "event_kind": (json.loads(ev).get("kind") if ev else None)},
                     {"trace": rj["lines"], "at": rj["at"], "event": ev})
    with open(trace) as f:
        rep.sample({"trace_prefix": [json.loads(x) for x in f.read().split("\n")[:3] if x]})
    os.remove(trace)
    # C03 inside the pipeline: which links exist when an item's rules are processed (MC_C03P over Verify.tla)
    ev0, tr0 = rep.cov["evaluations"], rep.cov["traces_validated_against_impl"]
    vr = VerifyRun(rep, "C03", tag="C03P")
    vr.tlc("MC_C03P", f"MC_C03P_{tier}.cfg", ["StepRules", "RunInspection", "InspectRules", "Finish"])
    vr.replay(["ed25519"], trace_runs=200)
    vr.sh.cleanup()
    rep.cov["pipeline_scenarios"] = rep.cov["evaluations"] - ev0
    rep.assumptions += ["paths are normalised and relative, patterns use the portable syntax (* ? literals); the only uninterpretable pattern exercised is '[' in DISALLOW",
                        "glob::Pattern with default options is trusted as the fnmatch implementation",
                        "digests are compared as whole algorithm->value maps; sha256 only"]


# ----------------------------------------------------------------------------- Verify.tla family
def norm_sum(s):
    if not isinstance(s, dict):
        return None
    return json.dumps({"mats": sorted(s["mats"], key=lambda a: a["p"]), "prods": sorted(s["prods"], key=lambda a: a["p"]),
                       "cmd": s.get("cmd", ""), "byp": s.get("byp", "")}, sort_keys=True)


class VerifyRun:
    """TLC on a bounded instance of Verify.tla, then replay of every scenario through in_toto_verify."""

    def __init__(self, rep, prop, tag=None):
        self.rep = rep
        self.prop = prop
        self.sh = Sharder(tag or prop)
        self.seen = {}
        self.allow = {}
        self.algo = {}
        self.sums = {}
        self.mustnot = {}
        self.failing = {}
        self.nontrivial_fn = lambda s: s["allow"] == ["err"] or bool(s["mustnot"])

    def on_scn(self, s):
        k = scn_key({"scn": s["scn"]})
        i = self.seen.get(k)
        if i is None:
            i = self.sh.add({"m": "VERIFY", "prop": s["prop"], "scn": s["scn"]})
            self.seen[k] = i
            self.allow[i] = s["allow"]
            self.algo[i] = set()
            self.sums[i] = set()
            self.mustnot[i] = set(s["mustnot"])
            self.failing[i] = set(s.get("failing", []))
            if self.nontrivial_fn(s):
                self.rep.nontrivial(k)
            if i % 1987 == 3:
                self.rep.sample({"scenario": s["scn"], "allowed": s["allow"], "spec_outcome": s["out"], "spec_stage": s["stage"]})
        self.algo[i].add(s["out"])
        if s["out"] == "ok":
            self.sums[i].add(norm_sum(s["sum"]))

    def tlc(self, module, cfg, needed_actions=()):
        st = run_tlc(module, cfg, self.prop.lower(), on_scn=self.on_scn, timeout=3000)
        require_clean(st, module)
        self.rep.add_tlc(st, module)
        if needed_actions:
            self.rep.vacuity(needed_actions)
        log(f"{self.prop}: {self.sh.count} scenarios from TLC ({module}) in {st.wall:.0f}s")

    def judge(self, r, env):
        i = r["i"]
        o = r.get("out", "harness:" + json.dumps(r)[:300])
        rep = self.rep
        mk = lambda i=i, r=r: {"scn": dict(self.sh.scenario(i), allow=self.allow[i]), "actual": {k: r.get(k) for k in ("out", "ran", "written", "sum", "msg")}, "env": env}
        if o not in self.allow[i]:
            rep.mismatch({"kind": "outcome", "actual": o, "allowed": self.allow[i], **{k: v for k, v in env.items() if k == "ITV_FAMILY"}}, mk)
        bad = (set(r.get("ran", [])) | set(r.get("written", []))) & self.mustnot[i]
        if bad:
            rep.mismatch({"kind": "inspection_ran_before_checks", "names": sorted(bad)}, mk)
        ranbad = set(r.get("ran", [])) & self.failing.get(i, set())
        if o == "ok" and ranbad:
            rep.mismatch({"kind": "inspection_failed_but_verification_passed", "names": sorted(ranbad)}, mk)
        if o == "ok" and self.sums[i]:
            if norm_sum(r.get("sum")) not in self.sums[i]:
                rep.mismatch({"kind": "summary", "actual": r.get("sum")}, mk)
            if r.get("name_ok") is False:
                rep.mismatch({"kind": "summary_not_under_the_requested_name", "actual": r.get("sum", {}).get("name")}, mk)
        if o not in self.algo[i]:
            rep.cov["drift"] += 1
        if o == "ok":
            rep.cov["impl_accepted"] = rep.cov.get("impl_accepted", 0) + 1

    def replay(self, fams, extra_env=None, per_shard_cwd=True, trace_runs=2500):
        n = 0
        for fi, fam in enumerate(fams):
            env = {"ITV_FAMILY": fam}
            if extra_env:
                env.update(extra_env)
            tracing = fi == 0 and trace_runs > 0
            if tracing:
                env["ITV_EVENTS"] = "1"
                tpath = os.path.join(vlib.OUT, f"{self.prop}.verify.trace.ndjson")
                tf = open(tpath, "w")
                every = max(1, self.sh.count // trace_runs)
                ntr = 0
            self.sh.run(env_extra=env, per_shard_cwd=per_shard_cwd)
            for r in self.sh.results():
                n += 1
                self.judge(r, env)
                if tracing and r["i"] % every == 0 and "reset" in r:
                    tf.write(json.dumps({"ev": "reset", "run": r["i"], "scn": r["reset"]}) + "\n")
                    for e in r.get("ev", []):
                        tf.write(json.dumps(e) + "\n")
                    tf.write(json.dumps({"ev": "result", "out": r.get("out")}) + "\n")
                    ntr += 1
            if tracing:
                tf.close()
                self.validate(tpath, ntr)
        self.rep.cov["evaluations"] += n
        self.rep.cov["traces_validated_against_impl"] += n
        self.rep.cov["key_families"] = fams
        return n


def _verify_validate(self, tpath, ntr):
    desync = {}

    total, rejected, tst = validate_trace(tpath, "Trace_Verify", "Trace_Verify.cfg", "tv" + self.prop.lower())
    self.rep.cov["traces_validated_against_impl"] += total - len(rejected)
    self.rep.cov["parts"]["trace"] = {"runs": total, "rejected": len(rejected), "states": tst.distinct}
    for rj in rejected:
        ev = rj.get("event")
        self.rep.mismatch({"kind": "trace_rejected", "event": (json.loads(ev).get("ev") if ev else None)},
                          {"trace": rj["lines"], "at": rj["at"], "event": ev})
    with open(tpath) as f:
        lines = [json.loads(x) for x in f.read().split("\n")[:12] if x]
    self.rep.sample({"trace_prefix": [x if x["ev"] != "reset" else {"ev": "reset", "run": x["run"], "scn": "..."} for x in lines]})
    os.remove(tpath)


VerifyRun.validate = _verify_validate


def _verify_random(self, n, fam="ed25519"):
    """impl -> spec beyond the TLC bounds: seeded random supply chains (up to 3 steps, 4 keys per step, every file
    state, sub-layouts) run through in_toto_verify with hooks on; Trace_Verify decides with the requirement layer of
    Verify.tla evaluated by TLC on each random scenario."""
    tpath = os.path.join(vlib.OUT, f"{self.prop}.random.trace.ndjson")
    run_itv(["record", "VERIFY", str(n)], stdout_path=tpath, env_extra={"ITV_FAMILY": fam, "ITV_EVENTS": "1"})
    with open(tpath) as f:
        lines = [x for x in f if x.startswith("{")]
    with open(tpath, "w") as f:
        f.writelines(lines)
    total, rejected, tst = validate_trace(tpath, "Trace_Verify", "Trace_Verify.cfg", "tvr" + self.prop.lower())
    self.rep.cov["traces_validated_against_impl"] += total - len(rejected)
    self.rep.cov["parts"]["random_trace"] = {"runs": total, "rejected": len(rejected), "states": tst.distinct}
    for rj in rejected:
        ev = rj.get("event")
        self.rep.mismatch({"kind": "trace_rejected", "driver": "random", "event": (json.loads(ev).get("ev") if ev else None)},
                          {"trace": rj["lines"], "at": rj["at"], "event": ev})
    os.remove(tpath)


VerifyRun.random = _verify_random

VERIFY_ASSUME = ["cryptographic primitives, hashing and DER/PEM codecs are abstracted (perfect signatures, injective ids); ring is trusted",
                 "small scope: <= 3 functionary keys + 1 foreign key, <= 2 steps per layout, delegation depth <= 2",
                 "the verification clock is pinned through the guarded hook (verif::set_now) so that time offsets are exact"]


def check_C02(rep, tier):
    rep.cov["rule"] = ("TLC enumerates layout key table x step key list x threshold x per-key state of the link file "
                       "(absent / valid / signed by another key under this id / corrupted / tampered / misfiled / multiply "
                       "signed / sub-layout / unparsable) and checks OkOnlyIfNec on Verify.tla; every scenario is built with "
                       "real keys and files and run through in_toto_verify.  Non-trivial = the requirement demands failure.")
    vr = VerifyRun(rep, "C02")
    vr.tlc("MC_C02", f"MC_C02_{tier}.cfg", ["LayoutSig", "Expiry", "LoadLinks", "LinkSigs", "EnterSub", "Reduce", "StepRules", "Finish"])
    rep.cov["exhaustive"] = True
    vr.replay(families_for(tier))
    vr.random(1500 if tier == "quick" else 20000)
    vr.sh.cleanup()
    rep.assumptions += VERIFY_ASSUME


def _simple_verify(rep, tier, prop, rule, actions, extra=None, trace_runs=2500, fams=None):
    rep.cov["rule"] = rule
    vr = VerifyRun(rep, prop)
    vr.tlc(f"MC_{prop}", f"MC_{prop}_{tier}.cfg", actions)
    rep.cov["exhaustive"] = True
    vr.replay(fams or families_for(tier), trace_runs=trace_runs)
    if extra:
        extra(vr)
    vr.sh.cleanup()
    rep.assumptions += VERIFY_ASSUME
    return vr


def check_C01(rep, tier):
    _simple_verify(rep, tier, "C01",
                   "TLC enumerates owner signer sets x caller key maps (empty, exact, superset, disjoint, aliased, mislabelled) x "
                   "one post-signing edit of each layout field x signature list shapes (as signed, empty, corrupted, relabelled, "
                   "duplicated) with everything downstream valid, and checks OkOnlyIfNec; each scenario is built with real keys, "
                   "the edit applied to the shipped document, and run through in_toto_verify.  Non-trivial = C01 demands failure.",
                   ["LayoutSig", "Expiry", "LoadLinks", "LinkSigs", "Reduce", "StepRules", "Finish"],
                   fams=(vlib_all_fams() if tier == "thorough" else None))


def vlib_all_fams():
    return FAMILIES


def check_C06(rep, tier):
    def real_clock(vr):
        # second pass without any clock hook: wall clock, only offsets at least a minute from the boundary
        env = {"ITV_FAMILY": "ed25519", "ITV_CLOCK": "real"}
        vr.sh.run(env_extra=env, per_shard_cwd=True)
        n = 0
        for r in vr.sh.results():
            sc = vr.sh.scenario(r["i"])
            exps = [d["expires"] for d in sc["scn"]["docs"] if d["typ"] == "layout"]
            if any(abs(e) < 60 for e in exps) or sc["scn"].get("now", 0) != 0:
                continue   # (scenarios with a moved verification instant need the pinned clock)
            n += 1
            vr.judge(r, env)
        rep.cov["evaluations"] += n
        rep.cov["real_clock_runs"] = n

    _simple_verify(rep, tier, "C06",
                   "TLC enumerates expiry offsets (far past ... -1 s, 0, +1 s ... far future) x RFC 3339 notations of the same "
                   "instant (Z, +00:00, -00:00, positive/negative offsets, fractional seconds, lower case) x {top-level layout, "
                   "delegated sub-layout}; replayed with the clock pinned through the hook (exact boundary) and again with "
                   "the real clock and no hook for offsets >= 60 s.  Non-trivial = the layout is expired (failure required).",
                   ["LayoutSig", "Expiry", "LoadLinks", "LinkSigs", "EnterSub", "Finish"], extra=real_clock)


def check_C07(rep, tier):
    _simple_verify(rep, tier, "C07",
                   "TLC enumerates threshold {2,3} x 2..3 valid authorised links x which signer dissents x kind of dissent (path, "
                   "digest, algorithm, extra / missing entry, empty) x side (materials / products) x an optional unauthorised or "
                   "badly signed fourth link that differs and must be ignored; TLC explores every choice of representative link. "
                   "Non-trivial = a valid authorised link dissents (failure required).",
                   ["LayoutSig", "LinkSigs", "Agreement", "Reduce", "Finish"])


def check_C08(rep, tier):
    vr = _simple_verify(rep, tier, "C08",
                        "TLC enumerates one failing cause per verification stage (bad owner signature, expiry, missing / unauthorised / "
                        "badly signed link, unmet threshold, disagreeing links, failing step rule, failing sub-layout, or none) x inspection "
                        "command behaviour (exit 0/1/2/255, killed by signal, not found; create / modify / delete a file) x accepting or "
                        "rejecting inspection rules, a second inspection, a sub-layout with its own inspection.  Replay runs real commands "
                        "in a fresh working directory and compares verdict AND side effects (sentinel files, <name>.link files) with the "
                        "specification's MustNotRun set.  Non-trivial = failure required or some inspection must not run.",
                        ["LayoutSig", "Expiry", "LoadLinks", "LinkSigs", "EnterSub", "Agreement", "Reduce", "StepRules",
                         "RunInspection", "InspectRules", "Finish"], fams=["ed25519"] if tier == "quick" else ["ed25519", "ecdsa"])


def check_C15(rep, tier):
    rep.cov["rule"] = ("TLC enumerates the state of the sub-layout that is the evidence of a step (valid, signed by another key under "
                       "the functionary's id, misfiled, signer not authorised for the step, expired, tampered, unsigned, signed by the "
                       "parent's owner, inner link missing / unauthorised / badly signed, inner rule failing, inner links in the parent "
                       "directory) x inner step sequences of length 1..3 (distinct artifacts, commands, byproducts) x delegation depth "
                       "2 and 3; replay builds the directory tree and compares verdict and returned summary link.  Non-trivial = "
                       "failure required.")
    vr = VerifyRun(rep, "C15")
    acts = ["LayoutSig", "Expiry", "LoadLinks", "LinkSigs", "EnterSub", "SubDone", "Reduce", "StepRules", "Finish"]
    vr.tlc("MC_C15", "MC_C15_quick.cfg", acts)
    vr.tlc("MC_C15", "MC_C15_deep.cfg", acts)
    rep.cov["exhaustive"] = True
    vr.replay(families_for(tier))
    vr.random(800 if tier == "quick" else 8000, fam=families_for(tier)[-1])
    vr.sh.cleanup()
    rep.assumptions += VERIFY_ASSUME


def check_C13(rep, tier):
    rep.cov["rule"] = ("TLC enumerates steps with surplus valid authorised links that differ (plain links and a sub-layout summary) x "
                       "thresholds x rule sets that do / do not depend on the representative link; Reduce is nondeterministic in "
                       "Verify.tla so TLC yields the set of admissible (verdict, summary) pairs per scenario.  Each scenario is verified "
                       "N times in-process (fresh hash seeds per map) and again in fresh processes, the passes visiting the scenarios in "
                       "different orders (so each is observed after different earlier verifications, including ones that fail inside "
                       "a sub-layout); the observation history is "
                       "validated against Determinism.tla (all observations of one scenario equal, each admitted by Verify.tla).  "
                       "Non-trivial = the specification admits more than one outcome (pick-sensitive scenario).")
    vr = VerifyRun(rep, "C13")
    poss = {}

    base_on = vr.on_scn

    def on_scn(s):
        base_on(s)
        i = vr.seen[scn_key({"scn": s["scn"]})]
        poss.setdefault(i, set()).add("err" if s["out"] == "err" else "ok " + norm_sum(s["sum"]))

    vr.on_scn = on_scn
    vr.nontrivial_fn = lambda s: False
    vr.tlc("MC_C13", f"MC_C13_{tier}.cfg", ["LayoutSig", "LinkSigs", "EnterSub", "Agreement", "Reduce", "StepRules", "Finish"])
    rep.cov["exhaustive"] = True
    sens = [i for i, p in poss.items() if len(p) > 1]
    for i in sens:
        rep.nontrivial(i)
    rep.cov["pick_sensitive_scenarios"] = len(sens)
    n = 32 if tier == "quick" else 256
    # rewrite shard inputs with a repeat count
    for f in vr.sh.files:
        f.close()
    for k in range(vr.sh.n):
        path = os.path.join(vr.sh.dir, f"in{k}.ndjson")
        with open(path) as f:
            rows = [json.loads(x) for x in f if x.strip()]
        with open(path, "w") as f:
            for r in rows:
                r["repeat"] = n
                f.write(json.dumps(r, separators=(",", ":")) + "\n")
    vr.sh.files = []
    hist = os.path.join(vlib.OUT, "c13.history.ndjson")
    nobs = 0
    with open(hist, "w") as hf:
        fam2 = families_for(tier)[-1]
        for i, p in sorted(poss.items()):
            for fam in ("ed25519", fam2):
                hf.write(json.dumps({"ev": "declare", "id": f"{i}/{fam}", "set": sorted(p)}) + "\n")
        for pas in range(4 if tier == "quick" else 8):
            # same scenario + same key family = same inputs; every pass is a set of fresh processes.  Passes
            # differ in the ORDER of the scenarios within each process, so that every scenario is observed after
            # different histories of other verifications (succeeding and failing ones) in the same thread
            env = {"ITV_FAMILY": "ed25519" if pas % 2 == 0 else fam2}
            for k in range(vr.sh.n):
                path = os.path.join(vr.sh.dir, f"in{k}.ndjson")
                with open(path) as f:
                    rows = [x for x in f if x.strip()]
                rows.sort(key=lambda x: json.loads(x)["i"], reverse=(pas // 2) % 2 == 1)
                if pas >= 4:
                    random.Random(vlib.seed() * 31 + pas).shuffle(rows)
                with open(path, "w") as f:
                    f.writelines(rows)
            vr.sh.run(env_extra=env, per_shard_cwd=True)
            for r in vr.sh.results():
                vr.judge(r, env)
                for d in r.get("distinct", []):
                    obs = "err" if d["out"] == "err" else (d["out"] + " " + (norm_sum(d.get("sum")) or "?"))
                    hf.write(json.dumps({"ev": "observe", "id": f'{r["i"]}/{env["ITV_FAMILY"]}', "obs": obs, "pass": pas}) + "\n")
                    nobs += 1
                rep.cov["evaluations"] += n + 1
    # history pass: the same paths first held another content of the same shape (same sizes, same mtimes)
    for k in range(vr.sh.n):
        path = os.path.join(vr.sh.dir, f"in{k}.ndjson")
        with open(path) as f:
            rows = [json.loads(x) for x in f if x.strip()]
        with open(path, "w") as f:
            for r in rows:
                r["repeat"] = 2
                r["history"] = True
                f.write(json.dumps(r, separators=(",", ":")) + "\n")
    with open(hist, "a") as hf:
        env = {"ITV_FAMILY": "ed25519"}
        vr.sh.run(env_extra=env, per_shard_cwd=True)
        for r in vr.sh.results():
            vr.judge(r, env)
            for d in r.get("distinct", []):
                obs = "err" if d["out"] == "err" else (d["out"] + " " + (norm_sum(d.get("sum")) or "?"))
                hf.write(json.dumps({"ev": "observe", "id": f'{r["i"]}/ed25519', "obs": obs, "pass": "history"}) + "\n")
                nobs += 1
            rep.cov["evaluations"] += 3
    rep.cov["history_pass"] = True
    total, rejected, tst = validate_trace(hist, "Determinism", "Determinism.cfg", "t13", reset_ev="NONE", max_rounds=1)
    rep.cov["parts"]["history"] = {"observations": nobs, "runs_per_scenario": n, "states": tst.distinct}
    rep.cov["traces_validated_against_impl"] += nobs
    if rejected:
        # find every scenario with more than one distinct observation
        seen = {}
        with open(hist) as f:
            for line in f:
                e = json.loads(line)
                if e["ev"] == "observe":
                    seen.setdefault(e["id"], set()).add(e["obs"])
        bad = [k for k, s in seen.items() if len(s) > 1 or not s <= poss.get(int(k.split("/")[0]), s)]
        for k in bad:
            i = int(k.split("/")[0])
            rep.mismatch({"kind": "nondeterministic_verdict" if len(seen[k]) > 1 else "outcome_not_admitted"},
                         lambda i=i, k=k: {"scn": dict(vr.sh.scenario(i), allow=vr.allow[i]), "observed": sorted(seen[k]),
                                           "admitted": sorted(poss[i]), "env": {"ITV_FAMILY": k.split("/")[1]}})
        if not bad:
            raise ToolError("Determinism.tla rejected the history but no offending scenario was found")
    with open(hist) as f:
        rep.sample({"history_prefix": [json.loads(x) for x in f.read().split("\n")[:2] if x]})
    os.remove(hist)
    vr.sh.cleanup()
    rep.assumptions += VERIFY_ASSUME + ["hash-seed variation is obtained from std's per-map RandomState and from fresh processes; N runs per scenario is a sample of the seeds"]


# ----------------------------------------------------------------------------- C20
def check_C20(rep, tier):
    rep.cov["rule"] = ("TLC runs the parser machine of Pae.tla on Pack(t,p) for every (type, payload) inside the bounds (all strings "
                       "<= 3 over {space,'1','a'} plus lengths 9,10,11,99,100,101) and proves RoundTrip and Injective, and on every "
                       "string up to MaxDec over the framing alphabet after the prefix (Total).  Replay: packed bytes must equal the "
                       "specification's, unpack must return the pair; enumerated strings must decode to a pair or an error (no "
                       "panic).  Seeded random ASCII pairs are validated as traces against Trace_Pae; binary payloads / Unicode types "
                       "are round-tripped by the harness.  Non-trivial = round-trip pairs, and decode inputs with a malformed or "
                       "overlong length field.")
    sh = Sharder("C20")
    exp = {}

    def on_scn(s):
        i = sh.add({k: s[k] for k in ("m", "kind", "input", "t", "p")})
        exp[i] = (s["kind"], s["out"], s["typ"], s["payload"])
        if s["kind"] == "rt" or s["out"] == "err":
            rep.nontrivial(i)
        if i % 4001 == 0:
            rep.sample({"kind": s["kind"], "input": s["input"], "spec": {"out": s["out"], "type": s["typ"], "payload": s["payload"]}})

    st = run_tlc("MC_C20", f"MC_C20_{tier}.cfg", "c20", on_scn=on_scn, java_opts="-Xss512m")
    require_clean(st, "MC_C20")
    rep.add_tlc(st, "MC_C20")
    rep.vacuity(["AStripPrefix", "AReadLen1", "AReadType", "AReadLen2", "AReadPayload"])
    rep.cov["exhaustive"] = True
    sh.run()
    n = 0
    for r in sh.results():
        n += 1
        kind, out, typ, payload = exp[r["i"]]
        o = r.get("out")
        mk = lambda i=r["i"], r=r: {"scn": dict(sh.scenario(i), allow=["ok"] if exp[i][0] == "rt" else ["ok", "err"]), "actual": r}
        if kind == "rt":
            if o != "ok" or not r.get("bytes_ok") or not r.get("pair_ok"):
                rep.mismatch({"kind": "round_trip", "actual": o, "bytes_ok": r.get("bytes_ok"), "pair_ok": r.get("pair_ok")}, mk)
        else:
            if o not in ("ok", "err"):
                rep.mismatch({"kind": "decode_not_total", "actual": o}, mk)
            elif o != out or (o == "ok" and (r.get("typ"), r.get("payload")) != (typ, payload)):
                rep.cov["drift"] += 1
    rep.cov["evaluations"] = n
    rep.cov["traces_validated_against_impl"] = n
    sh.cleanup()
    trace = os.path.join(vlib.OUT, "c20.trace.ndjson")
    run_itv(["record", "C20", str(1500 if tier == "quick" else 15000)], stdout_path=trace)
    total, rejected, tst = validate_trace(trace, "Trace_Pae", "Trace_Pae.cfg", "t20", reset_ev="pack")
    rep.cov["traces_validated_against_impl"] += total - len(rejected)
    rep.cov["parts"]["trace"] = {"runs": total, "rejected": len(rejected), "states": tst.distinct}
    for rj in rejected:
        rep.mismatch({"kind": "trace_rejected"}, {"trace": rj["lines"], "at": rj["at"]})
    os.remove(trace)
    _extreme_lengths(rep, "C20")
    res = json.loads(run_itv(["record", "C20bin", str(10000 if tier == "quick" else 300000)]))
    rep.cov["evaluations"] += res["n"]
    rep.cov["binary_round_trips"] = res["n"]
    for b in res["bad"]:
        rep.mismatch({"kind": "binary_round_trip"}, {"case": b})
    rep.assumptions += ["byte strings are modelled over a small framing alphabet; binary payloads are sampled, not enumerated",
                        "for strings that are not Pack images C20 only demands totality; disagreement with the parser machine is drift"]


def _deep_documents(rep):
    """Extremely deep / long documents offered to every parser and to verification, in a process of their own: a
    panic is reported by the harness, the death of the process (stack overflow, allocation failure) is seen here and
    attributed to single inputs, one process each."""
    def run(k):
        try:
            return last_json(run_itv(["record", "C14deep", str(k)], timeout=600)), None
        except ToolError as e:
            return None, str(e)
    res, died = run(0)
    if res is not None:
        rep.cov["deep_or_long_documents"] = res["inputs"]
        rep.cov["evaluations"] += res["calls"]
        for b in res["bad"]:
            rep.mismatch({"kind": "panic", "entry": b.get("entry"), "doc": "deep or long document", "input": b.get("input")}, {"case": b})
        return
    k = 1
    found = 0
    while k <= 200:
        r, d = run(k)
        if r is not None:
            if k > r["inputs"]:
                break
            for b in r["bad"]:
                rep.mismatch({"kind": "panic", "entry": b.get("entry"), "doc": "deep or long document", "input": b.get("input")}, {"case": b})
        else:
            found += 1
            rep.mismatch({"kind": "process_died", "entry": "deep_or_long_document", "input_index": k - 1}, {"case": {"record": ["C14deep", k], "error": d[:300]}})
        k += 1
    if not found:
        raise ToolError("C14deep died when run over all inputs but not on any single one: " + (died or "")[:200])


def _extreme_lengths(rep, prop):
    """Envelope encodings whose length fields hold extreme numbers, decoded in a process of their own: a panic
    is reported by the harness, the death of the process (allocation failure, stack overflow) is seen here."""
    def run(k):
        try:
            return last_json(run_itv(["record", "C20ext", str(k)], timeout=300)), None
        except ToolError as e:
            return None, str(e)
    res, died = run(0)
    if res is not None:
        rep.cov["extreme_length_inputs"] = res["inputs"]
        rep.cov["evaluations"] += 2 * res["inputs"]
        for b in res["bad"]:
            rep.mismatch({"kind": "panic", "entry": "pae_decode_extreme_length"}, {"case": b})
        return
    # the process died: find the inputs that kill it, one process each
    k = 1
    found = 0
    while k <= 400:
        r, d = run(k)
        if r is not None:
            if k > r["inputs"]:
                break
            for b in r["bad"]:
                rep.mismatch({"kind": "panic", "entry": "pae_decode_extreme_length"}, {"case": b})
        else:
            found += 1
            rep.mismatch({"kind": "process_died", "entry": "pae_decode_extreme_length"}, {"input_index": k - 1, "stderr": d[-300:]})
        k += 1
    if not found:
        raise ToolError("extreme-length decoding died as a batch but not one by one: " + (died or "")[-300:])


# ----------------------------------------------------------------------------- C11
def check_C11(rep, tier):
    rep.cov["rule"] = ("TLC enumerates every string up to the bound over 11 character classes (quote, backslash, LF, short-escape "
                       "controls, other controls, DEL, n, u, other ASCII, BMP, supplementary) x every string-bearing field of link and "
                       "layout, proves Olpc injective and computes the reference atoms; the harness instantiates each class (several "
                       "members per sequence, seeded), checks its own reference renderer against the TLC atoms, and requires through "
                       "the public API that (1) an ed25519 signature made directly over the reference bytes is accepted and (2) the "
                       "library's own signature equals it; key ids are compared with sha256 of the reference rendering of the key "
                       "description.  Sibling member names (environment variables, artifact paths, extra byproducts): TLC enumerates "
                       "every set of 2 (thorough: 3) names up to length 2 over the order classes ASCII < DEL < BMP below the surrogates "
                       "< BMP above them < supplementary and computes the code-point order the signed bytes must have (it differs from "
                       "UTF-16 order exactly where the last two meet).  Thorough: every Unicode scalar value.  Non-trivial = the string contains a class where "
                       "general-purpose JSON escaping and the reference encoding differ.")
    sh = Sharder("C11")
    dv = {}

    def on_scn(s):
        i = sh.add({k: s[k] for k in ("m", "field", "s", "ref")})
        dv[i] = s["dv"]
        if s["dv"] or s["field"] == "order" or any(c in ("Q", "B", "N") for c in s["s"]):
            rep.nontrivial(i)
        if i % 701 == 5:
            rep.sample({"field": s["field"], "classes": s["s"], "reference_atoms": s["ref"]})

    st = run_tlc("MC_C11", f"MC_C11_{tier}.cfg", "c11", on_scn=on_scn)
    require_clean(st, "MC_C11")
    rep.add_tlc(st, "MC_C11")
    rep.vacuity(["Encode", "Order"])
    rep.cov["exhaustive"] = True
    sh.run(env_extra={"ITV_REPS": "3" if tier == "quick" else "8"})
    n = 0
    for r in sh.results():
        n += 1
        i = r["i"]
        ok = r.get("outs") == ["ok"] and r.get("same_sig") and r.get("atoms_ok")
        if not ok:
            sig = {"kind": "signed_bytes_differ_from_reference" if r.get("atoms_ok") else "harness_reference_renderer_disagrees_with_spec",
                   "accepted": r.get("outs"), "same_sig": r.get("same_sig")}
            if dv.get(i):
                sig["dev"] = dv[i][0]
            rep.mismatch(sig, lambda i=i, r=r: {"scn": dict(sh.scenario(i), allow=["ok"]), "actual": r})
    rep.cov["evaluations"] = n * (3 if tier == "quick" else 8)
    rep.cov["traces_validated_against_impl"] = n
    sh.cleanup()
    # key ids: sha256 over the reference rendering of the key description
    res = json.loads(run_itv(["record", "C11keyid", "0"]))
    rep.cov["key_ids_checked"] = res["n"]
    for b in res["bad"]:
        rep.mismatch({"kind": "key_id_preimage"}, {"case": b})
    if tier == "thorough":
        res = json.loads(run_itv(["record", "C11all", "1"], timeout=3000))
    else:
        res = json.loads(run_itv(["record", "C11all", str(97 + vlib.seed() % 5)]))
    rep.cov["unicode_scalars_checked"] = res["chars"]
    rep.cov["evaluations"] += res["docs"]
    for b in res["bad"]:
        rep.mismatch({"kind": "signed_bytes_differ_from_reference", "class": b.get("class")}, {"case": b})
    rep.assumptions += ["ring's ed25519 is deterministic, so equality of signatures is equality of signed bytes",
                        "the harness' own OLPC renderer is the reference; it is checked against CJson.tla's Olpc atoms on every scenario",
                        "serde_json's Value serialisation of the metadata gives the member set that is signed"]


# ----------------------------------------------------------------------------- C10
def check_C10(rep, tier):
    rep.cov["rule"] = ("TLC enumerates JSON value shapes (every number class incl. the i64/u64 boundaries, floats, exponents; strings and "
                       "member names over the character classes; arrays, objects, two nesting levels), checks that an order-free "
                       "canonical writer is accepted by the token acceptor and computes the allowed verdict.  Each value is "
                       "instantiated (several class members), written in 4 textual spellings (member order, whitespace, \\uXXXX "
                       "escapes, \\/), canonicalised by Json::canonicalize and the output tokenised by an independent tokeniser; "
                       "Trace_CJson accepts iff verdict allowed, all spellings gave the same bytes, members sorted by code point, "
                       "parse-back identical, integers exact, and the token stream renders exactly the value with JSON-valid "
                       "escapes.  Non-trivial = contains a string/member name needing escapes, a boundary integer, a non-integer or "
                       "an object with two members.")
    sh = Sharder("C10")
    allow = {}

    def on_scn(s):
        i = sh.add({"m": "C10", "v": s["v"]})
        allow[i] = s["allow"]
        txt = json.dumps(s["v"])
        if any(x in txt for x in ('"Q"', '"B"', '"N"', '"E"', '"C"', '"S"', '"U"', "i64", "u64", "frac", "exp", "zero")) or txt.count('"k"') >= 2:
            rep.nontrivial(i)
        if i % 97 == 11:
            rep.sample({"value": s["v"], "allowed": s["allow"]})

    st = run_tlc("MC_C10", f"MC_C10_{tier}.cfg", "c10", on_scn=on_scn, java_opts="-Xss512m")
    require_clean(st, "MC_C10")
    rep.add_tlc(st, "MC_C10")
    rep.vacuity(["Convert", "WriteOut"])
    rep.cov["exhaustive"] = True
    trace = os.path.join(vlib.OUT, "c10.trace.ndjson")
    nrun = 0
    skipped = 0
    with open(trace, "w") as tf:
        for salt in range(3 if tier == "quick" else 12):
            sh.run(env_extra={"ITV_SALT": str(salt)})
            for r in sh.results():
                i = r["i"]
                if "skip" in r:
                    skipped += 1
                    continue
                nrun += 1
                o = r.get("out")
                mk = lambda i=i, r=r, salt=salt: {"scn": dict(sh.scenario(i), allow=allow[i]), "actual": {k: v for k, v in r.items() if k != "event"}, "env": {"ITV_SALT": str(salt)}}
                if o not in allow[i]:
                    rep.mismatch({"kind": "verdict", "actual": o, "allowed": allow[i]}, mk)
                elif not r.get("same", False):
                    rep.mismatch({"kind": "depends_on_spelling"}, mk)
                elif o == "ok" and not (r.get("sorted") and r.get("parseback") and r.get("nums_exact") and not r.get("tok_err")):
                    rep.mismatch({"kind": "not_canonical", "sorted": r.get("sorted"), "parseback": r.get("parseback"),
                                  "nums_exact": r.get("nums_exact"), "tok_err": r.get("tok_err")}, mk)
                if "event" in r:
                    tf.write(json.dumps(r["event"]) + "\n")
    rep.cov["evaluations"] = nrun * 4
    rep.cov["skipped_unparseable_source"] = skipped
    sh.cleanup()
    total, rejected, tst = validate_trace(trace, "Trace_CJson", "Trace_CJson.cfg", "t10", reset_ev="canon")
    rep.cov["traces_validated_against_impl"] = total - len(rejected)
    rep.cov["parts"]["trace"] = {"runs": total, "rejected": len(rejected), "states": tst.distinct}
    for rj in rejected:
        rep.mismatch({"kind": "trace_rejected"}, {"trace": rj["lines"][:3], "at": rj["at"]})
    with open(trace) as f:
        rep.sample({"trace_event": json.loads(f.readline())})
    os.remove(trace)
    res = json.loads(run_itv(["record", "C10all", "1" if tier == "thorough" else str(61 + vlib.seed() % 7)], timeout=3000))
    rep.cov["unicode_scalars_checked"] = res["chars"]
    for b in res["bad"]:
        rep.mismatch({"kind": "unicode_member_or_content"}, {"case": b})
    rep.assumptions += ["serde_json is the JSON parser used to obtain values from text and for parse-back (trusted)",
                        "duplicate member names in source text are outside the quantifier",
                        "integer-valued but not integer-spelled numbers (1e2, 1.0, -0) and integers beyond 64 bits: rejection and exact rendering both allowed"]


# ----------------------------------------------------------------------------- C09 / C05 (Lifecycle.tla)
def _life(rep, tier, prop, fams, needed):
    sh = Sharder(prop)
    allow = {}

    def on_scn(s):
        i = sh.add({k: s[k] for k in s if k not in ("out", "allow")})
        allow[i] = s["allow"]
        if s["out"] == "err" or any(o["op"] in ("flip", "relabel", "dropsig", "edit") for o in s["ops"]):
            rep.nontrivial(i)
        if i % 1511 == 7:
            rep.sample({"doc": s["doc"], "string_classes": s["s"], "ops": s["ops"], "expected": s["out"]})

    st = run_tlc(f"MC_{prop}", f"MC_{prop}_{tier}.cfg", prop.lower(), on_scn=on_scn)
    require_clean(st, f"MC_{prop}")
    rep.add_tlc(st, f"MC_{prop}")
    rep.vacuity(needed)
    rep.cov["exhaustive"] = True
    n = 0
    skips = {}
    # quick tier: the RSA key SIZE that is not among this run's full families still gets a thin slice (every 48th
    # scenario): a defect tied to one signature size (512 bytes for RSA-4096) must not wait for the seed to pick it
    runs = [(fam, None) for fam in fams]
    if tier == "quick":
        other_size = "rsa4096-256" if not any(f.startswith("rsa4096") for f in fams) else "rsa2048-256"
        runs += [(other_size, "48")]
    for fam, every in runs:
        env = {"ITV_FAMILY": fam}
        if every:
            env["ITV_EVERY"] = every
        sh.run(env_extra=env)
        for r in sh.results():
            i = r["i"]
            if "skip" in r:
                skips[r["skip"]] = skips.get(r["skip"], 0) + 1
                continue
            n += 1
            o = r.get("out")
            mk = lambda i=i, r=r, env=env: {"scn": dict(sh.scenario(i), allow=allow[i]), "actual": r, "env": env}
            if o not in allow[i]:
                rep.mismatch({"kind": "outcome", "actual": o, "allowed": allow[i], "family": fam}, mk)
            note = r.get("note", {})
            if note.get("read_differs") or note.get("read_failed"):
                rep.mismatch({"kind": "wire_trip_changed_block", "family": fam}, mk)
            if note.get("untouched_rejected"):
                rep.mismatch({"kind": "untouched_block_rejected", "family": fam}, mk)
            if note.get("signature_count"):
                rep.mismatch({"kind": "constructor_signature_count", "family": fam}, mk)
            if note.get("bytes_differ") is False:
                rep.mismatch({"kind": "edit_leaves_bytes_equal", "family": fam}, mk)
    rep.cov["evaluations"] = n
    rep.cov["traces_validated_against_impl"] = n
    rep.cov["skipped"] = skips
    rep.cov["key_families"] = fams
    rep.cov["key_families_thin_slice"] = [f for f, e in runs if e]
    sh.cleanup()


def check_C09(rep, tier):
    rep.cov["rule"] = ("TLC enumerates every life-cycle path of Lifecycle.tla: constructor (direct / builder) x 1..3 signers x compact / "
                       "pretty JSON x content strings over the character classes (placed in every string-bearing field of a link and of "
                       "a layout) x optional edit x optional signature mutation (bit flip, relabel, drop) x verifier key choice (signers, "
                       "other key, superset, too many, same material under another scheme, threshold 0); the expected verdict follows "
                       "from the C04 requirement on the abstract state.  Every path is executed on real objects for several key types; "
                       "additionally every bit of an ed25519 signature (a sample for ECDSA / RSA) is flipped.  Non-trivial = the path "
                       "contains a mutation or must fail.")
    fams = types_for(tier)
    _life(rep, tier, "C09", fams, ["Construct", "Write", "Read", "Edit", "FlipBit", "Relabel", "DropSig", "ChooseKeys", "RelabelToStar", "Verify"])
    bits = 0
    for fam in types_for(tier):
        res = json.loads(run_itv(["record", "C09bits", "100000" if fam == "ed25519" else ("256" if tier == "quick" else "1024")],
                                 env_extra={"ITV_FAMILY": fam}))
        bits += res["bits"]
        if res["accepted"] or not res["untouched_ok"]:
            rep.mismatch({"kind": "bit_flip_accepted", "family": fam}, {"case": res})
    rep.cov["signature_bits_flipped"] = bits
    rep.cov["evaluations"] += bits
    rep.assumptions += ["signature primitives (ring) trusted; class members chosen by seed",
                        "'same key material declared with a different scheme' is built with PublicKey::from_spki(<spki>, <other scheme>)"]


def check_C05(rep, tier):
    rep.cov["rule"] = ("TLC enumerates (document kind, single-field edit) over 23 link fields and 28 layout fields, and all ordered pairs "
                       "of distinct near-collision strings over {backslash, quote, n, LF, control, ASCII} up to the bound (Olpc proved "
                       "injective on them), on Lifecycle.tla whose invariant EditInvalidates says: after any edit the signatures no "
                       "longer verify.  Each scenario signs a rich document with the library, applies the edit to the JSON of the "
                       "signed part, re-parses and verifies with the signers' keys: must fail, and the canonical bytes must differ.  "
                       "Non-trivial = every scenario (each contains an edit); skipped when the edit yields an equal parsed value.")
    _life(rep, tier, "C05", families_for(tier), ["AConstruct", "AWrite", "ARead", "AEdit", "AEditString", "AVerify"])
    res = last_json(run_itv(["record", "C05dates", "5000" if tier == "quick" else "300000"], timeout=3000))
    rep.cov["expiry_instants_with_pairwise_distinct_signed_bytes"] = res["instants"]
    rep.cov["evaluations"] += res["instants"]
    for b in res["bad"]:
        rep.mismatch({"kind": "two_expiry_instants_same_signed_bytes"}, {"case": b})
    rep.assumptions += ["pairs of documents are generated by single edits and by bounded enumeration of string pairs, not all pairs",
                        "expiry differences below one second are outside C05 ('to the second')"]


# ----------------------------------------------------------------------------- C12
def check_C12(rep, tier):
    rep.cov["rule"] = ("TLC enumerates every construction path of length <= 4 of KeyId.tla (from private key, raw bytes, standard "
                       "SubjectPublicKeyInfo DER / PEM, other scheme; round trips through JSON value / JSON text / SPKI export-import) "
                       "for every key type, and every key table over 3 keys with entries filed under their own id, another key's id, a "
                       "foreign id or absent.  Replay runs each path on every fixture key of the type: after every step key_id() must be "
                       "sha256 of the independently rendered description, the material unchanged, JSON round trips identities, and the "
                       "final export byte-identical to the standard SPKI built from DER templates; each table is parsed inside a layout "
                       "(no id may map to a key with another intrinsic id, own entries survive) and aliased entries are exercised end "
                       "to end through in_toto_verify.  Non-trivial = path with a round trip / table with a misfiled entry.")
    sh = Sharder("C12")
    kinds = {}

    def on_scn(s):
        i = sh.add({k: s[k] for k in s})
        kinds[i] = s["kind"]
        if (s["kind"] == "path" and len(s["path"]) > 1) or (s["kind"] == "table" and any(v not in ("own", "absent") for v in s["table"].values())):
            rep.nontrivial(i)
        if i % 131 == 3:
            rep.sample(s)

    st = run_tlc("MC_C12", f"MC_C12_{tier}.cfg", "c12", on_scn=on_scn)
    require_clean(st, "MC_C12")
    rep.add_tlc(st, "MC_C12")
    rep.vacuity(["AFromPrivate", "AFromRaw", "AFromSpki", "AFromPem", "AViaJson", "AViaSpki", "AStop"])
    rep.cov["exhaustive"] = True
    n = 0
    for fam in (["ed25519"] if tier == "quick" else ["ed25519", "ecdsa", "rsa2048-256"]):
        env = {"ITV_FAMILY": fam}
        sh.run(env_extra=env)
        for r in sh.results():
            n += 1
            if r.get("out") != "ok":
                p = (r.get("problems") or [{}])[0]
                sig = {"kind": "key_" + kinds[r["i"]], "problem": sorted(k for k in p.keys() if k not in ("family", "idx", "step", "id", "want"))[:2],
                       "op": p.get("op")}
                rep.mismatch(sig, lambda i=r["i"], r=r, env=env: {"scn": sh.scenario(i), "actual": r, "env": env})
    rep.cov["evaluations"] = n
    rep.cov["traces_validated_against_impl"] = n
    sh.cleanup()
    # C12 at the level of one signed block: entries attributed to an identifier that resembles / is another key's,
    # made with k1's key (MC_C12M over Metablock.tla, run through Metablock::verify in every order of both lists)
    shm = Sharder("C12M")
    allow_m = {}
    seen_m = {}

    def on_m(s):
        k = scn_key(s)
        if k in seen_m:
            return
        i = shm.add(s)
        seen_m[k] = i
        allow_m[i] = s["allow"]
        rep.nontrivial("m" + k)

    stm = run_tlc("MC_C12M", "MC_C12M.cfg", "c12m", on_scn=on_m)
    require_clean(stm, "MC_C12M")
    rep.add_tlc(stm, "MC_C12M")
    for fam in (["ed25519"] if tier == "quick" else ["ed25519", "ecdsa", "rsa2048-256"]):
        shm.run(env_extra={"ITV_FAMILY": fam})
        for r in shm.results():
            i = r["i"]
            outs = generic_outs(r)
            rep.cov["evaluations"] += r.get("runs", 1)
            for o in outs:
                if o not in allow_m[i]:
                    rep.mismatch({"kind": "attributed_signature_counted_for_another_identifier", "actual": o, "allowed": allow_m[i], "family": fam},
                                 lambda i=i, outs=outs, fam=fam: {"scn": shm.scenario(i), "actual": outs, "env": {"ITV_FAMILY": fam}})
    rep.cov["block_level_scenarios"] = shm.count
    shm.cleanup()
    # C12 inside the pipeline: an entry attributed to X counts only through a valid signature of X (MC_C12P over Verify.tla)
    ev0 = rep.cov["evaluations"]
    vr = VerifyRun(rep, "C12", tag="C12P")
    vr.tlc("MC_C12P", f"MC_C12P_{tier}.cfg", ["LoadLinks", "LinkSigs", "Agreement", "Finish"])
    vr.replay(["ed25519"] if tier == "quick" else ["ed25519", "ecdsa"], trace_runs=100)
    vr.sh.cleanup()
    rep.cov["pipeline_scenarios"] = rep.cov["evaluations"] - ev0
    rep.assumptions += ["sha256 and the DER/PEM codecs are trusted; the standard SubjectPublicKeyInfo forms are built from fixed templates "
                        "(RFC 8410 ed25519 without parameters, RFC 5480 P-256 with the curve OID, RFC 3279 RSA with NULL)",
                        "key material limited to the committed fixture keys"]


# ----------------------------------------------------------------------------- C16 / C17 / C19 (Wire.tla)
def _wire(rep, tier, prop, kinds, judge, env=None):
    sh = Sharder(prop)
    meta = {}

    def on_scn(s):
        if s["kind"] not in kinds:
            return
        i = sh.add({k: s[k] for k in s if k not in ("out", "version")})
        meta[i] = s
        if i % 1777 == 9:
            rep.sample({k: s[k] for k in s if k != "m"})

    st = run_tlc("MC_Wire", f"MC_Wire_{tier}.cfg", prop.lower(), on_scn=on_scn)
    require_clean(st, "MC_Wire")
    rep.add_tlc(st, "MC_Wire")
    rep.vacuity(["AReadKind", "AReadSrc", "AReadWith", "AReadDst", "AReadFrom", "ASerialize", "ARespell", "AParse", "AReserialize", "ARecognise"])
    rep.cov["exhaustive"] = True
    sh.run(env_extra=env, timeout=3 * 3600)
    n = 0
    for r in sh.results():
        n += 1
        s = meta[r["i"]]
        if "harness_panic" in r:
            raise ToolError("harness panic: " + r["harness_panic"])
        judge(s, r, lambda i=r["i"], r=r: {"scn": sh.scenario(i), "spec": {"out": meta[i]["out"], "version": meta[i].get("version")}, "actual": r})
    rep.cov["evaluations"] = n
    rep.cov["traces_validated_against_impl"] = n
    sh.cleanup()


def check_C16(rep, tier):
    rep.cov["rule"] = ("TLC runs the rule-grammar parser machine of Wire.tla on every valid rule form (operands that spell keywords "
                       "included) and every single-token deletion / insertion / replacement, and enumerates shape descriptors of links "
                       "(environment absent / empty / 1 / 2 entries, 0..2 extra byproducts, return value absent / 0 / negative / max, "
                       "empty collections, string classes, 0 / 2 signatures) and layouts (0..2 steps, every rule form, thresholds "
                       "0 / 1 / u32::MAX, key types, inspections, expiry).  Each document is built with the builders and must satisfy "
                       "parse(serialise(v)) = v and serialise(parse(serialise(v))) = serialise(v), compact and pretty, as signed block, "
                       "as wrapper and as bare metadata; each accepted token sequence must parse to the grammar's value and serialise "
                       "back to the same tokens.  Non-trivial = documents with optional parts / accepted MATCH forms / mutated sequences.")

    def judge(s, r, mk):
        if s["kind"] == "rule":
            if r["out"] == "ok":
                rep.nontrivial(r["i"])
                if s["out"] == "ok" and not r.get("value_ok"):
                    rep.mismatch({"kind": "rule_value_altered", "got": r.get("got")}, mk)
                if not r.get("rt_ok"):
                    rep.mismatch({"kind": "rule_not_round_tripping"}, mk)
            if r["out"] != s["out"]:
                if s["out"] == "ok":
                    rep.mismatch({"kind": "valid_rule_rejected"}, mk)
                else:
                    rep.cov["drift"] += 1
        else:
            rep.nontrivial(r["i"])
            if not r.get("value_ok") or not r.get("text_ok"):
                reserved = s["desc"].get("reserved", "none")
                if reserved != "none":
                    rep.mismatch({"kind": "round_trip_extra_byproduct_with_reserved_name", "reserved": reserved}, mk)
                else:
                    rep.mismatch({"kind": "round_trip", "value_ok": r.get("value_ok"), "text_ok": r.get("text_ok"), "detail": (r.get("detail") or "")[:80]}, mk)

    _wire(rep, tier, "C16", ("rule", "link", "layout"), judge)
    rep.assumptions += ["values are those obtainable from the builders (expiry at whole seconds); serde_json is the JSON reader/writer",
                        "byproducts extra fields use names distinct from stdout / stderr / return-value (see DESIGN.md, reading question)"]


def check_C17(rep, tier):
    rep.cov["rule"] = ("Every document of the Wire.tla instance (rule token sequences incl. rejected ones, link / layout shape "
                       "descriptors as signed block, wrapper and bare metadata, predicate and statement field subsets) is parsed "
                       "through 8 channels (serde_json str / byte slice / streaming reader / parsed JSON tree and the library's "
                       "Json::from_slice / from_reader / deserialize, JsonPretty::from_reader) x 6 texts (as written, extra white space, "
                       "every character \\uXXXX-escaped with members reversed, trailing garbage, two concatenated documents, truncated); "
                       "all 48 must agree with the str channel on accept / reject and on the value.  Non-trivial = accepted documents (value comparison).")

    def judge(s, r, mk):
        if r.get("out") == "ok":
            rep.nontrivial(r["i"])
        if not r.get("channels_agree"):
            d = r.get("detail") or ""
            rep.mismatch({"kind": "channel_dependent", "doc": s["kind"], "detail": d[:60]}, mk)
        if s["kind"] == "pred" and r.get("typed_agree") is False:
            rep.mismatch({"kind": "channel_dependent", "doc": "typed predicate", "detail": (r.get("typed_detail") or "")[:60]}, mk)

    # content damages: this many leaves per document (spread over the whole document), every damage kind at each
    _wire(rep, tier, "C17", ("rule", "link", "layout", "pred", "stmt"), judge,
          env={"ITV_DAMAGE_LEAVES": "16" if tier == "quick" else "40"})
    rep.cov["evaluations"] *= 48
    # the link directory as a channel: the bytes of a signed link file (as written, padded, ill-formed UTF-8 in place of
    # a character, things before / after) count as evidence exactly when the slice is a validly signed block
    res = last_json(run_itv(["record", "C17file", "1"]))
    rep.cov["link_directory_channel_variants"] = res["n"]
    rep.cov["evaluations"] += res["n"]
    for b in res["bad"]:
        rep.mismatch({"kind": "channel_dependent", "doc": "link file in the link directory", "variant": b.get("variant")}, {"case": b})
    rep.assumptions += ["serde_json's four entry points are the channels; escape spelling produced by the harness writer"]


def check_C19(rep, tier):
    rep.cov["rule"] = ("TLC proves the closed schemas of Wire.tla pairwise disjoint over every subset of the field universes and "
                       "enumerates every predicate field subset x kind of 'materials' x timestamp form, every statement field subset, "
                       "and declared predicate type x contained predicate format.  Each document is built and parsed with the version-"
                       "detecting parsers: an accepted document must be recognised as exactly the schema's version (judge_from_value "
                       "agreeing), must round-trip through its canonical bytes and through JSON, and a v0.1 statement whose declared "
                       "type names another format must be rejected; statements built from link metadata must carry every field over. "
                       "Non-trivial = documents some schema accepts, and type / format mismatches.")

    def judge(s, r, mk):
        exp_ver = (s.get("version") or [None])[0] if s.get("version") else None
        d = s["desc"]
        mismatch_case = s["kind"] == "stmt" and "predicate" in d["fields"] and d["declared"] != d["contained"]
        if r["out"] == "ok" or s["out"] == "ok" or mismatch_case:
            rep.nontrivial(r["i"])
        if r["out"] == "ok":
            if mismatch_case:
                rep.mismatch({"kind": "declared_type_differs_from_predicate", "declared": d["declared"], "contained": d["contained"]}, mk)
            elif s["out"] == "ok" and r.get("version") != exp_ver:
                rep.mismatch({"kind": "wrong_version", "got": r.get("version"), "want": exp_ver}, mk)
            if not r.get("judge_ok"):
                rep.mismatch({"kind": "version_judgement_disagrees"}, mk)
            if not (r.get("rt_ok") and r.get("rt2_ok")):
                rep.mismatch({"kind": "round_trip", "detail": (r.get("detail") or "")[:80]}, mk)
            if s["out"] != "ok" and not mismatch_case:
                rep.cov["drift"] += 1
        elif s["out"] == "ok":
            rep.cov["drift"] += 1
            rep.cov.setdefault("rejected_though_schema_accepts", 0)
            rep.cov["rejected_though_schema_accepts"] += 1
        if s["kind"] == "pred":
            # the format parsers themselves: what one of them accepts round-trips
            if r.get("typed_rt") is False:
                rep.mismatch({"kind": "round_trip", "doc": "typed predicate", "detail": (r.get("typed_detail") or "")[:80]}, mk)
            if len(r.get("typed_accepts") or []) > 1:
                rep.mismatch({"kind": "recognised_as_several_versions", "which": r.get("typed_accepts")}, mk)
            if s["desc"]["ts"] != "none" and r.get("typed_accepts"):
                rep.cov["timestamped_predicates_round_tripped"] = rep.cov.get("timestamped_predicates_round_tripped", 0) + 1

    _wire(rep, tier, "C19", ("pred", "stmt"), judge)
    res = last_json(run_itv(["record", "C19meta", "240" if tier == "quick" else "2400"]))
    rep.cov["from_meta_checks"] = res["n"]
    rep.cov["evaluations"] += res["n"]
    for b in res["bad"]:
        rep.mismatch({"kind": "from_meta_alters_field", "which": b.get("kind"), "field": b.get("field")}, {"case": b})
    rep.assumptions += ["C19 constrains accepted documents; a document the schema accepts but the parser rejects is recorded as drift",
                        "field universes are the top-level members of each format; nested optional members use fixed representative values"]


# ----------------------------------------------------------------------------- C18
def check_C18(rep, tier):
    rep.cov["rule"] = ("TLC enumerates file-system graphs over the skeleton of Record.tla (files, nested and empty directories, up to two "
                       "symbolic links, absolute and relative, to files / directories / each other / an ancestor), path argument lists "
                       "(single, overlapping, duplicated, file, link) and strip-prefix lists (none, nested, colliding), and in_toto_run "
                       "histories (create / modify / delete / create in sub-directory), proving Exact / ErrIffCollision / EveryFileOnce "
                       "on the walk machine.  Each graph is materialised in a temporary directory (name classes plain / space / "
                       "non-ASCII / leading dot, non-normalised argument spellings, sha256 / sha512 / both, files of 0..3000 bytes and "
                       "1 MiB) and record_artifacts / in_toto_run must return exactly the specification's entries, each identified by an "
                       "independently computed digest of the whole file.  Non-trivial = graph with a link, overlap or strip list.")
    sh = Sharder("C18")
    exp = {}

    def on_scn(s):
        i = sh.add({k: s[k] for k in ("m", "fs", "flav", "cmd", "args", "strips")})
        exp[i] = (s["out"], sorted((e["key"], e["file"]) for e in s["entries"]), sorted(s["files"]),
                  sorted((e["key"], e["file"]) for e in s["after"]), s["cmd"], s["amb"])
        if s["fs"]["l1"] != "none" or s["fs"]["l2"] != "none" or len(s["args"]) > 1 or s["strips"]:
            rep.nontrivial(i)
        if i % 2503 == 17:
            rep.sample({k: s[k] for k in ("fs", "flav", "cmd", "args", "strips", "out", "entries")})

    st = run_tlc("MC_C18", f"MC_C18_{tier}.cfg", "c18", on_scn=on_scn)
    require_clean(st, "MC_C18")
    rep.add_tlc(st, "MC_C18")
    rep.vacuity(["ARecordArg", "ARecordEnd"])
    rep.cov["exhaustive"] = True
    sh.run(per_shard_cwd=True)
    n = 0
    for r in sh.results():
        n += 1
        i = r["i"]
        out, entries, files, after, cmd, amb = exp[i]
        mk = lambda i=i, r=r: {"scn": sh.scenario(i), "spec": {"out": exp[i][0], "entries": exp[i][1], "after": exp[i][3]}, "actual": r}
        o = r.get("out")
        sc = None
        if o == "panic":
            rep.mismatch({"kind": "panic"}, mk)
            continue
        if r.get("order_dependent"):
            rep.mismatch({"kind": "depends_on_order_of_strip_prefixes"}, mk)
        if r.get("second_recording_differs"):
            rep.mismatch({"kind": "second_recording_after_rewrite_differs"}, mk)
        if r.get("dot_root_differs"):
            rep.mismatch({"kind": "recording_from_inside_the_directory_differs", "argument": r["dot_root_differs"].get("argument")}, mk)
        if out == "err":
            if o != "err":
                rep.mismatch({"kind": "collision_not_reported"}, mk)
            continue
        if o != "ok" and amb:
            rep.cov["drift"] += 1
            continue
        if o != "ok":
            sc = sh.scenario(i)
            cls = "relative_symlink" if ("rel" in (sc["flav"]["l1"], sc["flav"]["l2"]) and (sc["fs"]["l1"] != "none" or sc["fs"]["l2"] != "none")) else \
                  ("overlapping_arguments" if len(sc["args"]) > 1 else "other")
            rep.mismatch({"kind": "spurious_error", "class": cls, "msg": (r.get("msg") or "")[:60]}, mk)
            continue
        got = sorted((e["key"], e["file"]) for e in r["entries"])
        if not r.get("digests_ok"):
            rep.mismatch({"kind": "digest_wrong_or_algorithm_missing"}, mk)
        if got != entries:
            extra = [e for e in got if e not in entries]
            missing_files = [f for f in files if f not in {e[1] for e in got}]
            if extra:
                rep.mismatch({"kind": "recorded_something_else", "n": len(extra)}, mk)
            elif missing_files:
                rep.mismatch({"kind": "reachable_file_not_recorded", "files": missing_files}, mk)
            else:
                rep.mismatch({"kind": "entry_missing", "missing": [e for e in entries if e not in got][:3]}, mk)
        if cmd != "norun":
            gota = sorted((e["key"], e["file"]) for e in r.get("after", []))
            if gota != after:
                rep.mismatch({"kind": "products_do_not_reflect_post_state"}, mk)
            if not (r.get("byproducts_ok") and r.get("name_ok")):
                rep.mismatch({"kind": "byproducts_or_name_wrong"}, mk)
    rep.cov["evaluations"] = n
    rep.cov["traces_validated_against_impl"] = n
    sh.cleanup()
    rep.assumptions += ["walkdir and the OS resolve links; dangling links are outside C18's quantifier",
                        "digests recomputed independently with ring over the whole file in one call",
                        "files have pairwise distinct contents so that an entry's digest identifies the file"]


# ----------------------------------------------------------------------------- C14
def check_C14(rep, tier):
    rep.cov["rule"] = ("Robust.tla states totality (a call yields a value or an error, nothing else) and the adversarial class lattice: "
                       "per field of link files, layouts, rule inputs and key material a set of representable-but-unusual classes "
                       "(key ids with a multi-byte character straddling byte 8, non-normalised / absolute / empty / glob paths, extreme "
                       "and ill-typed numbers, malformed digests, truncated DER / PEM, wrong OIDs, ...).  TLC enumerates every document "
                       "with at most two unusual fields; each is offered to every entry point (parsers, block verification, rule "
                       "application, key importers, final-product verification with the file placed in the link directory before any "
                       "signature is checked) under a panic guard, in processes whose death is attributed to the scenario; the call log "
                       "is validated against Trace_Robust.tla.  Byte level: seeded mutation of well-formed documents.  Every scenario "
                       "of the other properties also runs under the same guard.  Non-trivial = document with an unusual field.")
    sh = Sharder("C14")
    kinds = {}

    def on_scn(s):
        i = sh.add({k: s[k] for k in ("m", "kind", "doc")})
        kinds[i] = (s["kind"], s["entries"])
        rep.nontrivial(i)
        if i % 307 == 5:
            rep.sample({"kind": s["kind"], "doc": s["doc"]})

    st = run_tlc("MC_C14", f"MC_C14_{tier}.cfg", "c14", on_scn=on_scn, timeout=600)
    require_clean(st, "MC_C14")
    rep.add_tlc(st, "MC_C14")
    rep.vacuity(["BNext"])
    rep.cov["exhaustive"] = True
    sh.run(per_shard_cwd=True, tolerate_death=True, timeout=1200)
    trace = os.path.join(vlib.OUT, "c14.trace.ndjson")
    done = set()
    n = 0
    outcomes = {}
    with open(trace, "w") as tf:
        for r in sh.results():
            i = r["i"]
            done.add(i)
            n += 1
            if "calls" not in r:
                rep.mismatch({"kind": "harness", "detail": json.dumps(r)[:100]}, lambda i=i, r=r: {"scn": sh.scenario(i), "actual": r})
                continue
            tf.write(json.dumps({"ev": "doc", "kind": kinds[i][0], "i": i}) + "\n")
            for c in r["calls"]:
                tf.write(json.dumps({"ev": "call", "entry": c["entry"], "res": c["res"]}) + "\n")
                ck = f"{kinds[i][0]}/{c['entry']}/{c['res']}"
                outcomes[ck] = outcomes.get(ck, 0) + 1
                if c["res"] not in ("value", "error"):
                    doc = sh.scenario(i)["doc"]
                    unusual = sorted(f"{k}={v}" for k, v in doc.items() if v not in ("ok", "one", "link", "plain", "list", "normal", "null", "none", "owner", "present", "spki_ed25519"))
                    rep.mismatch({"kind": c["res"], "entry": c["entry"], "doc": kinds[i][0], "unusual": unusual[:2]},
                                 lambda i=i, r=r: {"scn": sh.scenario(i), "actual": r})
    # a dead worker: the first scenario of its shard without a result is the culprit
    for shard, rc in getattr(sh, "deaths", []):
        with open(os.path.join(sh.dir, f"in{shard}.ndjson")) as f:
            ids = [json.loads(x)["i"] for x in f if x.strip()]
        culprit = next((i for i in ids if i not in done), None)
        rep.mismatch({"kind": "process_died", "rc": rc}, lambda c=culprit: {"scn": sh.scenario(c) if c is not None else None})
    rep.cov["evaluations"] = n
    rep.cov["call_outcomes"] = outcomes
    # vacuity: the usual document of every kind must get THROUGH each entry point (an all-default layout verifies, an
    # all-default link file is accepted), otherwise the unusual fields are never reached
    # (a run that already has violations to report - a dead worker takes the rest of its shard with it - is not held
    # to this: the violations are the result)
    for need in ("layout/final_product_verification/value", "linkfile/final_product_verification/value",
                 "linkfile/block_verify/value", "keymat/key_import/value"):
        if not outcomes.get(need) and not rep.violations:
            raise ToolError(f"vacuous C14 lattice: no call with outcome {need}")
    total, rejected, tst = validate_trace(trace, "Trace_Robust", "Trace_Robust.cfg", "t14", reset_ev="doc")
    rep.cov["traces_validated_against_impl"] = total - len(rejected)
    rep.cov["parts"]["trace"] = {"runs": total, "rejected": len(rejected), "states": tst.distinct}
    os.remove(trace)
    sh.cleanup()
    _extreme_lengths(rep, "C14")
    _deep_documents(rep)
    res = last_json(run_itv(["record", "C14mut", "20000" if tier == "quick" else "2000000"], timeout=6000))
    rep.cov["byte_mutations"] = res["n"]
    rep.cov["mutation_outcomes"] = {k: res[k] for k in ("value", "error", "panic")}
    rep.cov["evaluations"] += res["n"]
    for b in res["bad"]:
        rep.mismatch({"kind": "panic", "entry": "byte_mutation"}, {"case": b})
    rep.assumptions += ["'all byte strings' is explored by seeded mutation of specification-generated documents, not decided",
                        "stack overflow / abort is observed as death of the worker process; non-termination as the harness timeout (tool error)"]
