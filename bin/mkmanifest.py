#!/usr/bin/env python3
"""Regenerates MANIFEST.json from the table below (kept in one place so it stays valid)."""
import json, os, subprocess
V = os.path.dirname(os.path.dirname(os.path.abspath(__file__)))
HOOK_COMMITS = subprocess.run(["git", "-C", "/repo", "log", "--format=%H %s"], capture_output=True, text=True).stdout.strip().split("\n")
hooks = [l.split()[0] for l in HOOK_COMMITS if "verif hooks:" in l]

CHECKS = {
 "C04": dict(cat="model_checking", ref="§4 C04, §3.2",
   text="TLC exhaustively explores Metablock.tla (threshold verification shaped like the code, de-duplication choice and visiting order nondeterministic) for every threshold / authorised list / signature list inside the bounds and proves Sound, Complete and CountedGood; every input is then concretised with real keys (several key types) and run through Metablock::verify under every permutation, and seeded random runs beyond the bounds are validated as traces (sig_counted hook) against Trace_Metablock.tla.",
   note="Trusted: TLC, ring (signature primitives), the harness concretisation (sign with the library, relabel / corrupt). Bounds: lists <= 2 (quick) / 3 (thorough) over 3 keys + 1 foreign key. Reading: 'each key signs at most once' = no two signatures share a claimed id or a signer.",
   tech="TLA+ spec Metablock.tla model-checked with TLC; spec->impl replay of every TLC scenario; impl->spec trace validation (Trace_Metablock.tla)"),
}
NOT_APPLICABLE = []

def main():
    props = [json.loads(l)["id"] for l in open(os.path.join(V, "properties.jsonl"))]
    checks = []
    for pid in props:
        c = CHECKS.get(pid)
        if not c:
            continue
        checks.append({
            "property_id": pid,
            "quick_cmd": f"bin/check {pid} --tier quick",
            "thorough_cmd": f"bin/check {pid} --tier thorough",
            "evidence_file": f"/verif/evidence/{pid}.json",
            "replay_cmd_template": f"bin/check {pid} --replay {{path}}",
            "engine": "tla-conformance",
            "level_claimed": {"category": c["cat"], "text": c["text"], "design_ref": c["ref"]},
            "level_note": c["note"],
            "technique": c["tech"],
        })
    claimed = {c["property_id"] for c in checks}
    na = [x for x in NOT_APPLICABLE if x["property_id"] not in claimed]
    for pid in props:
        if pid not in claimed and pid not in {x["property_id"] for x in na}:
            na.append({"property_id": pid, "reason": "check not built yet in this session (work in progress; see DESIGN.md §4 for the planned TLA+ module)"})
    m = {
        "version": 1,
        "setup_cmd": "cd /verif/harness && (test -f Cargo.lock || cp /repo/Cargo.lock Cargo.lock) && CARGO_NET_OFFLINE=true cargo build --release --offline",
        "hooks": {
            "guard": "--cfg in_toto_verif",
            "enable": "harness/.cargo/config.toml sets rustflags = [\"--cfg\", \"in_toto_verif\"] for the harness build, which compiles /repo as a path dependency from its current working tree",
            "baseline_off_cmd": "cd /repo && (cargo nextest run --workspace --no-fail-fast --offline || cargo test --workspace --no-fail-fast --offline)",
            "source_commits": hooks,
            "add_only": True,
        },
        "engines": [{"name": "tla-conformance", "path": "/verif/bin/check",
                     "serves_properties": sorted(claimed),
                     "kind_free_text": "explicit TLA+ specifications (spec/*.tla) model-checked with TLC; TLC-emitted scenarios replayed through the real library by the Rust harness (harness/); hook-recorded implementation traces validated against Trace_*.tla"}],
        "checks": checks,
        "not_applicable": na,
        "notes": "bin/check exits 0 (held / only listed known findings), 1 with a VIOLATION line, 2 for tool errors. known_findings.jsonl lists open and fixed findings.",
    }
    with open(os.path.join(V, "MANIFEST.json"), "w") as f:
        json.dump(m, f, indent=1)
        f.write("\n")

main()
