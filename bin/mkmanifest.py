#!/usr/bin/env python3
"""Regenerates MANIFEST.json from the table below (kept in one place so it stays valid)."""
import json, os, subprocess
V = os.path.dirname(os.path.dirname(os.path.abspath(__file__)))
HOOK_COMMITS = subprocess.run(["git", "-C", "/repo", "log", "--format=%H %s"], capture_output=True, text=True).stdout.strip().split("\n")
hooks = [l.split()[0] for l in HOOK_COMMITS if "verif hooks:" in l]

CHECKS = {
 "C01": dict(cat="model_checking", ref="§4 C01, §3.1",
   text='MC_C01 instantiates Verify.tla over owner signer sets x caller key maps (empty, exact, superset, disjoint, aliased) x one post-signing edit per layout field x signature-list shapes; TLC proves OkOnlyIfNec (success only if every caller key has a valid signature over the shipped content). Every scenario is replayed with real keys of several types through in_toto_verify; hook traces are validated against Trace_Verify.tla.',
   note='Trusted: TLC; ring for the primitives; the harness concretisation (builders, real keys, real files); abstraction: perfect signatures, injective key ids. Small scope stated in the evidence; clock pinned through the guarded hook.',
   tech='TLA+ spec Verify.tla (pipeline state machine + requirement layer) model-checked with TLC; spec->impl replay of every TLC scenario through in_toto_verify; impl->spec trace validation of hook events (Trace_Verify.tla)'),
 "C02": dict(cat="model_checking", ref="§4 C02, §3.1",
   text='MC_C02 instantiates Verify.tla over layout key table x step key list x threshold x per-key link file state (absent, valid, other key under this id, corrupted, tampered, misfiled, multiply signed, sub-layout, unparsable); TLC proves OkOnlyIfNec; every scenario is replayed through in_toto_verify on a real link directory; each link_counted hook event must name a key authorised for that step with valid evidence (Trace_Verify.tla). Seeded random supply chains beyond the bounds (up to 3 steps, 4 keys per step, every file state, sub-layouts) are run with hooks on and decided by Trace_Verify.tla, i.e. by the requirement layer evaluated by TLC on each random scenario.',
   note='Trusted: TLC; ring for the primitives; the harness concretisation (builders, real keys, real files); abstraction: perfect signatures, injective key ids. Small scope stated in the evidence; clock pinned through the guarded hook.',
   tech='TLA+ spec Verify.tla (pipeline state machine + requirement layer) model-checked with TLC; spec->impl replay of every TLC scenario through in_toto_verify; impl->spec trace validation of hook events (Trace_Verify.tla)'),
 "C06": dict(cat="model_checking", ref="§4 C06, §3.1",
   text='MC_C06 instantiates Verify.tla over expiry offsets around the verification instant x RFC 3339 notations x {top-level, sub-layout}; replayed with the clock pinned through the hook (exact boundary) and with the real clock without any hook for offsets >= 60 s.',
   note='Trusted: TLC; ring for the primitives; the harness concretisation (builders, real keys, real files); abstraction: perfect signatures, injective key ids. Small scope stated in the evidence; clock pinned through the guarded hook.',
   tech='TLA+ spec Verify.tla (pipeline state machine + requirement layer) model-checked with TLC; spec->impl replay of every TLC scenario through in_toto_verify; impl->spec trace validation of hook events (Trace_Verify.tla)'),
 "C07": dict(cat="model_checking", ref="§4 C07, §3.1",
   text='MC_C07 instantiates Verify.tla over thresholds 2..3, 2..3 valid authorised links, each kind of dissent in materials or products, plus links that must be ignored; TLC explores every choice of reference link; replay compares the verdict.',
   note='Trusted: TLC; ring for the primitives; the harness concretisation (builders, real keys, real files); abstraction: perfect signatures, injective key ids. Small scope stated in the evidence; clock pinned through the guarded hook.',
   tech='TLA+ spec Verify.tla (pipeline state machine + requirement layer) model-checked with TLC; spec->impl replay of every TLC scenario through in_toto_verify; impl->spec trace validation of hook events (Trace_Verify.tla)'),
 "C08": dict(cat="model_checking", ref="§4 C08, §3.1",
   text="MC_C08 instantiates Verify.tla over one failing cause per stage x inspection command behaviours x inspection rules x a second inspection x a sub-layout inspection; TLC proves C08Order / C08Written (no inspection of a layout runs or writes its link before that layout's checks passed) and OkOnlyIfNec (non-zero exit, signal, not-found and inspection-rule failures are fatal). Replay runs the real commands and compares sentinel files and link files with the specification's MustNotRun set; inspect_start hook events are validated against it too.",
   note='Trusted: TLC; ring for the primitives; the harness concretisation (builders, real keys, real files); abstraction: perfect signatures, injective key ids. Small scope stated in the evidence; clock pinned through the guarded hook.',
   tech='TLA+ spec Verify.tla (pipeline state machine + requirement layer) model-checked with TLC; spec->impl replay of every TLC scenario through in_toto_verify; impl->spec trace validation of hook events (Trace_Verify.tla)'),
 "C13": dict(cat="model_checking", ref="§4 C13",
   text="Verify.tla keeps the choice of a step's representative link (and every other unordered-map iteration) nondeterministic; MC_C13 makes TLC compute, for every scenario with surplus differing links, the set of admissible (verdict, summary) pairs. The real verifier is run N times per scenario in-process (fresh hash seeds) and in fresh processes; the observation history is validated against Determinism.tla: every observation admitted by Verify.tla and all observations of one scenario equal. A history pass verifies each scenario on paths that previously held another content of the same shape (same sizes, same modification times): the verdict must be that of the current content.",
   note='Trusted: TLC; ring for the primitives; the harness concretisation (builders, real keys, real files); abstraction: perfect signatures, injective key ids. Small scope stated in the evidence; clock pinned through the guarded hook.',
   tech='TLA+ spec Verify.tla model-checked with TLC (nondeterministic Reduce) + observation-history validation against Determinism.tla'),
 "C15": dict(cat="model_checking", ref="§4 C15",
   text="MC_C15 instantiates Verify.tla (stack of frames) over every listed way a delegated sub-layout can be wrong x inner step sequences 1..3 x delegation depth 2 and 3; TLC proves OkOnlyIfNec with the recursive requirement (sub-layout signed by the authorised functionary it is filed under, unexpired, fully verified against its own sub-directory); replay compares the verdict and the returned summary link (first step's materials, last step's products / command / byproducts).",
   note='Trusted: TLC; ring for the primitives; the harness concretisation (builders, real keys, real files); abstraction: perfect signatures, injective key ids. Small scope stated in the evidence; clock pinned through the guarded hook.',
   tech='TLA+ spec Verify.tla model-checked with TLC; spec->impl replay through in_toto_verify on real directory trees; impl->spec trace validation (Trace_Verify.tla)'),
 "C20": dict(cat="model_checking", ref="§4 C20, §3.5",
   text="Pae.tla defines Pack and the decoding as a parser machine (one action per framing field). TLC proves RoundTrip (the machine run on Pack(t,p) returns exactly (t,p)), Injective (distinct pairs pack to distinct strings) and Total for every pair / every string inside the bounds; each case is replayed through the real pack / unpack (guarded re-export): packed bytes equal the specification's, unpack returns the pair, enumerated malformed strings give a pair or an error. Seeded random ASCII pairs are validated as traces against Trace_Pae.tla; binary payloads and Unicode types are round-tripped by the harness.",
   note="Trusted: TLC, the guarded re-export (verif::pae_pack / pae_unpack call the private functions unchanged). Bounds: strings <= 3 over {space,'1','a'} plus lengths around the 1/2/3-digit boundaries; decode inputs <= 5 (quick) / 7 (thorough) over 7 framing characters; binary payloads sampled.",
   tech="TLA+ spec Pae.tla (parser machine) model-checked with TLC; replay of every TLC case; trace validation (Trace_Pae.tla)"),
 "C11": dict(cat="model_checking", ref="§4 C11, §3.4",
   text="CJson.tla defines, over 11 character classes, the reference signed-bytes string encoding Olpc, the general-purpose JSON escaping and the textual replacement the code used to apply; TLC proves Olpc injective, characterises exactly the strings on which the old path differs (non-vacuity witness set), and emits one scenario per (class string, string-bearing field) with the reference atoms. The harness instantiates every class (several members; every Unicode scalar value in the thorough tier), checks its independent OLPC renderer against the TLC atoms, and requires through the public API only that an ed25519 signature made directly over the reference bytes verifies and that the library's own signature is byte-identical; key ids of all fixture keys are compared with sha256 of the reference rendering of the key description.",
   note="Trusted: TLC, ring ed25519 (deterministic), serde_json's Value form of the metadata as the member set. Class-based: each class is instantiated by seeded members (quick) or all members (thorough); strings <= 2 in every field and <= 3 in captured output (quick), <= 3 / <= 4 (thorough).",
   tech="TLA+ spec CJson.tla (encoders over character classes) checked with TLC; every TLC scenario concretised and decided through Metablock::verify / Metablock::new with an independent reference renderer bound to the spec atoms"),
 "C10": dict(cat="model_checking", ref="§4 C10, §3.4",
   text="CJsonValues.tla defines abstract JSON values over character / number classes, C10's verdict rule (integers exact, non-integers rejected) and a token-stream acceptor (structure, loss-freedom, JSON-valid escape spellings, no whitespace). TLC enumerates value shapes, checks an order-free canonical writer against the acceptor and emits each value. The harness instantiates classes, writes each value in four textual spellings, runs Json::canonicalize, tokenises the output independently and TLC validates one trace event per value against Trace_CJson.tla (verdict allowed, spelling-independent, members sorted by code point, parse-back identical, integers exact, token stream renders the value). Every Unicode scalar value is exercised as member name and content (strided in quick, all in thorough).",
   note="Trusted: TLC, serde_json as JSON parser, the harness tokeniser. Class-based for characters and numbers (boundary integers exact); nesting <= 2, <= 2 members.",
   tech="TLA+ spec CJsonValues.tla (acceptor) + TLC enumeration; impl->spec trace validation of tokenised canonical output (Trace_CJson.tla)"),
 "C09": dict(cat="model_checking", ref="§4 C09, §3.2",
   text="Lifecycle.tla models the life of a signed block (construct with the direct constructor or the builder, write compact / pretty, read, optional edit, optional signature mutation, verify with a chosen key set and threshold); the expected verdict is derived from the abstract state by the C04 requirement, and TLC proves UntouchedVerifies / EditInvalidates / NoForeignKey over every path. Every path is executed on real layouts and links for several key types with content strings from all character classes in every string-bearing field; every bit of an ed25519 signature (a sample for ECDSA / RSA-PSS) is flipped. Documents are written through serde_json (compact, pretty) and through the library's Json / JsonPretty interchange; signer lists with repeated keys distinguish the direct constructor (one signature per listing) from the builder (one per key); duplicates of mixed validity are left open as in C04.",
   note="Trusted: TLC, ring. Class-based strings (members by seed); 1..3 signers; 'same material under a different scheme' built with PublicKey::from_spki.",
   tech="TLA+ spec Lifecycle.tla model-checked with TLC; spec->impl replay of every path on real signed metadata"),
 "C05": dict(cat="model_checking", ref="§4 C05, §3.2, §3.4",
   text="MC_C05 combines Lifecycle.tla (invariant EditInvalidates: after any edit of the signed part the signatures no longer verify) with CJson.tla (the signed-bytes string encoding is injective, proved by TLC on all strings up to the bound; MC_C11 proves it for all 11 classes). TLC enumerates every single-field edit of a rich link (23 fields) and layout (28 fields) and every ordered pair of distinct near-collision strings; each scenario is executed on documents really signed by the library: after the edit verification with the signers' keys must fail and the canonical bytes must differ. Expiry edits are applied at every calendar-position class (mid-year, year ends, leap day) and the signed bytes of 48 k distinct expiry instants are checked pairwise distinct; structure-level near collisions (members / array elements folded into one whose text spells the boundary) are edits too.",
   note="Trusted: TLC, ring, serde_json. Pairs of documents are generated by single edits and bounded string pairs, not all pairs of documents.",
   tech="TLA+ specs Lifecycle.tla + CJson.tla checked with TLC; spec->impl replay of every edit scenario through Metablock::verify"),
 "C12": dict(cat="model_checking", ref="§4 C12, §3.5",
   text="KeyId.tla models a key as its description (type, scheme, hash-algorithm list, material) with an injective intrinsic id, every public construction path as an action with its intended effect on the description, and key-table parsing. TLC enumerates all paths of length <= 4 per key type (invariants: material and type never change, JSON round trips are identities) and all tables over 3 keys with misfiled entries. Each path is run on every fixture key: key_id() must equal sha256 of an independently rendered description after every step, exports must be byte-identical to standard SubjectPublicKeyInfo built from RFC templates; each table is parsed in a layout and aliased entries are exercised end to end through in_toto_verify (a signature labelled X is only checked against the key whose id is X).",
   note="Trusted: TLC, sha256 (ring), the DER templates of the harness, serde_json. Key material: committed fixture keys (9 ed25519, 3 P-256, 2+2 RSA).",
   tech="TLA+ spec KeyId.tla model-checked with TLC; spec->impl replay of every path / table on real keys with independent id and SPKI oracles"),
 "C16": dict(cat="model_checking", ref="§4 C16, §3.5",
   text="Wire.tla gives the artifact-rule grammar as a parser machine (checked by TLC against a functional grammar and for round trip on every valid form and every single-token mutation) and the document life cycle value -> text -> value' -> text''. TLC enumerates shape descriptors of links and layouts (every optional part and variant, incl. extra byproducts named like typed members). Every document is built with the builders and must round-trip as signed block, wrapper and bare metadata, compact and pretty; every accepted token sequence must parse to the grammar's value and serialise to the same tokens. Round trips also start from TEXT: crafted JSON whose command arguments, names, paths and environment carry white space, empty strings and untidy operands must parse and serialise back to the same JSON.",
   note='Trusted: TLC, serde_json (reader / writer / Value), the harness document builders. Descriptor-based: each optional part / variant is a descriptor dimension; string content by class; field universes are the top-level members.',
   tech='TLA+ spec Wire.tla (rule parser machine, document life cycle) model-checked with TLC; spec->impl replay of every descriptor / token sequence'),
 "C17": dict(cat="model_checking", ref="§4 C17, §3.5",
   text="Every document of the Wire.tla instance - rule token sequences (accepted and rejected), link and layout descriptors as signed block / wrapper / bare metadata, predicate and statement field subsets - is parsed through 4 channels (str, slice, reader, JSON tree) x 3 spellings (plain, whitespace, all characters \\\\uXXXX-escaped with members reversed); Wire.tla's Parse step is channel-independent, so all 12 results must agree on accept / reject and value. Channels: serde_json from_str / from_slice / from_reader / from_value and the library's Json::from_slice / from_reader / deserialize and JsonPretty::from_reader; texts: as written, extra white space, fully escaped with members reversed, trailing garbage, two concatenated documents, truncated.",
   note='Trusted: TLC, serde_json (reader / writer / Value), the harness document builders. Descriptor-based: each optional part / variant is a descriptor dimension; string content by class; field universes are the top-level members.',
   tech='TLA+ spec Wire.tla enumerated with TLC; every document decoded through all channel x spelling combinations and compared'),
 "C19": dict(cat="model_checking", ref="§4 C19, §3.5",
   text="Wire.tla states the closed schemas of the naive / v0.1 statements and Link v0.2 / SLSA v0.1 / v0.2 predicates; TLC proves them pairwise disjoint over every subset of the field universes (so recognition yields at most one version) and enumerates every field subset x materials kind x timestamp form and declared type x contained format. Each document is parsed with the version-detecting parsers: accepted documents must be recognised as the schema's version (judge_from_value agreeing), round-trip through canonical bytes and JSON, and type / predicate mismatches must be rejected; statements built from link metadata must carry name, artifacts, command, byproducts and environment unchanged.",
   note='Trusted: TLC, serde_json (reader / writer / Value), the harness document builders. Descriptor-based: each optional part / variant is a descriptor dimension; string content by class; field universes are the top-level members.',
   tech='TLA+ spec Wire.tla (schemas, disjointness theorem) checked with TLC; spec->impl replay of every field-subset document'),
 "C18": dict(cat="model_checking", ref="§4 C18, §3.5",
   text="Record.tla models the file-system graph (files, nested / empty directories, up to two symbolic links to files, directories, each other or an ancestor), the directory walk (real directories always entered, links to directories followed unless on the descent stack), strip-prefix selection, collision detection and the materials / command / products sequencing of a run. TLC enumerates graphs x argument lists x strip lists x commands and proves Exact, ErrIffCollision and EveryFileOnce on the walk machine; every graph is materialised in a temporary directory (four name classes, absolute and relative links, non-normalised arguments, sha256 / sha512 / both, empty to 1 MiB files) and record_artifacts / in_toto_run must return exactly the specification's entries with independently recomputed digests, byproducts equal to the command's streams and status. Every order of the strip-prefix list is tried (the specification's result is order-free).",
   note="Trusted: TLC, walkdir / the OS for link resolution, ring for the independent digests. Bounds: the fixed skeleton of 4 files, 3 directories, 2 links; dangling links and non-existent arguments are outside the quantifier; one file reachable by two paths with the same key is left open (error or one entry).",
   tech="TLA+ spec Record.tla (walk machine) model-checked with TLC; spec->impl replay of every graph on a real directory tree"),
 "C14": dict(cat="exploration", ref="§4 C14, §3.5",
   text="Exploration guided by a TLA+ specification: Robust.tla states totality of every entry point (value or error, no other outcome) and defines an adversarial class lattice per field of link files, layouts, rule inputs and key material; TLC enumerates every document with at most two unusual fields (all pairs of classes) and each is offered to all parsers, key importers, block verification, rule application and final-product verification (file placed in the link directory before any signature check) under a panic guard in worker processes whose death is attributed to the scenario; the call log is validated against Trace_Robust.tla, which has no step for a panic. Byte level: seeded mutation (bit flips, truncation, splices, interesting tokens) of well-formed documents. 'All byte strings' is explored, not decided. Key material additionally comes in structurally valid but degenerate DER (empty / unused-bits-only bit string, empty OID, empty AlgorithmIdentifier, long-form lengths) wrapped as DER, PEM and key JSON.",
   note="Trusted: TLC for the enumeration; catch_unwind / process exit status as the crash observers; a hang shows as a harness timeout (tool error). Coverage is pairwise over the listed classes plus 20 k (quick) / 2 M (thorough) mutants.",
   tech="TLA+ spec Robust.tla (totality + class lattice) enumerated with TLC; every document and seeded byte mutants offered to all entry points under a crash monitor; call-log trace validation (Trace_Robust.tla)"),
 "C03": dict(cat="model_checking", ref="§4 C03, §3.3",
   text="Rules.tla transcribes the in-toto specification's artifact-rule algorithm (functional form and a state machine with one Apply step per rule; TLC checks that both agree, that the queue only shrinks and that a rule only consumes artifacts its pattern / source prefix matches). TLC enumerates rule lists x item link states x referenced-step states; every scenario is run through the real rule engine and the verdict must equal the specification's; seeded random scenarios beyond the bounds (up to 4+4 rules, 6 paths, nested prefixes) are validated step by step (consumed set and remaining queue after every rule, hook in rulelib.rs) against Trace_Rules.tla.",
   note="Trusted: TLC, glob::Pattern (default options) as fnmatch, the harness builders. Inputs restricted to C03's own quantifier: normalised relative paths, portable glob syntax; '[' only in DISALLOW. Bounds: 3 paths, 57-rule alphabet, rule lists <= 2 in TLC (<= 4+4 in traces).",
   tech="TLA+ spec Rules.tla/Glob.tla model-checked with TLC; spec->impl replay of every TLC scenario via guarded re-export verif::apply_rules; impl->spec per-rule trace validation (Trace_Rules.tla)"),
 "C04": dict(cat="model_checking", ref="§4 C04, §3.2",
   text="TLC exhaustively explores Metablock.tla (threshold verification shaped like the code, de-duplication choice and visiting order nondeterministic) for every threshold / authorised list / signature list inside the bounds and proves Sound, Complete and CountedGood; every input is then concretised with real keys (several key types) and run through Metablock::verify under every permutation, and seeded random runs beyond the bounds are validated as traces (sig_counted hook) against Trace_Metablock.tla.",
   note="Trusted: TLC, ring (signature primitives), the harness concretisation (sign with the library, relabel / corrupt). Bounds: lists <= 2 (quick) / 3 (thorough) over 3 keys + 1 foreign key. Reading: 'each key signs at most once' = no two signatures share a claimed id or a signer.",
   tech="TLA+ spec Metablock.tla model-checked with TLC; spec->impl replay of every TLC scenario; impl->spec trace validation (Trace_Metablock.tla)"),
}
NOT_APPLICABLE = []

def main():
    props = [json.loads(l)["id"] for l in open(os.path.join(V, "properties.jsonl"))]
    checks = []
    for pid in props:
        c = CHECKS.get(pid)
        if not c:
            continue
        checks.append({
            "property_id": pid,
            "quick_cmd": f"bin/check {pid} --tier quick",
            "thorough_cmd": f"bin/check {pid} --tier thorough",
            "evidence_file": f"/verif/evidence/{pid}.json",
            "replay_cmd_template": f"bin/check {pid} --replay {{path}}",
            "engine": "tla-conformance",
            "level_claimed": {"category": c["cat"], "text": c["text"], "design_ref": c["ref"]},
            "level_note": c["note"],
            "technique": c["tech"],
        })
    claimed = {c["property_id"] for c in checks}
    na = [x for x in NOT_APPLICABLE if x["property_id"] not in claimed]
    for pid in props:
        if pid not in claimed and pid not in {x["property_id"] for x in na}:
            na.append({"property_id": pid, "reason": "check not built yet in this session (work in progress; see DESIGN.md §4 for the planned TLA+ module)"})
    m = {
        "version": 1,
        "setup_cmd": "cd /verif/harness && (test -f Cargo.lock || cp /repo/Cargo.lock Cargo.lock) && CARGO_NET_OFFLINE=true cargo build --release --offline",
        "hooks": {
            "guard": "--cfg in_toto_verif",
            "enable": "harness/.cargo/config.toml sets rustflags = [\"--cfg\", \"in_toto_verif\"] for the harness build, which compiles /repo as a path dependency from its current working tree",
            "baseline_off_cmd": "cd /repo && (cargo nextest run --workspace --no-fail-fast --offline || cargo test --workspace --no-fail-fast --offline)",
            "source_commits": hooks,
            "add_only": True,
        },
        "engines": [{"name": "tla-conformance", "path": "/verif/bin/check",
                     "serves_properties": sorted(claimed),
                     "kind_free_text": "explicit TLA+ specifications (spec/*.tla) model-checked with TLC; TLC-emitted scenarios replayed through the real library by the Rust harness (harness/); hook-recorded implementation traces validated against Trace_*.tla"}],
        "checks": checks,
        "not_applicable": na,
        "notes": "bin/check exits 0 (held / only listed known findings), 1 with a VIOLATION line, 2 for tool errors. known_findings.jsonl lists open and fixed findings.",
    }
    with open(os.path.join(V, "MANIFEST.json"), "w") as f:
        json.dump(m, f, indent=1)
        f.write("\n")

main()
