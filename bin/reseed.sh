#!/bin/bash
# bin/reseed.sh <seeded-name> <prop>: re-apply stored seed to /repo and run the quick check
name=$1; prop=$2
cd ${SEED_REPO:-/repo} && git apply /verif/seeded/$name/patch.diff || exit 2
cd ${SEED_VERIF:-/verif} && bin/check $prop --tier quick > /verif/seeded/$name/check_with.txt 2>&1; rc=$?
git -C ${SEED_REPO:-/repo} checkout -- .
echo "$name check rc=$rc"; grep -m2 VIOLATION /verif/seeded/$name/check_with.txt; tail -5 /verif/seeded/$name/check_with.txt | grep -v VIOLATION
python3 - "$name" "$rc" <<'PY'
import json,sys
p=f"/verif/seeded/{sys.argv[1]}/result.json"
r=json.load(open(p)); r["check_rc"]=int(sys.argv[2]); json.dump(r,open(p,"w"))
PY
