#!/bin/bash
# bin/seedcheck.sh <name> <property> <agent out dir> <agent worktree>
# 1. confirms the seeded change in the scratch worktree (suite passes with it, demo fails with it, passes without)
# 2. applies it to /repo, runs the property's quick check, reverts
# 3. stores it under /verif/seeded/<name>/
set -u
name=$1; prop=$2; out=$3; wt=$4
dest=/verif/seeded/$name
mkdir -p $dest
cp $out/patch.diff $dest/patch.diff
demo=$(ls $out/*.rs | head -1)
cp $demo $dest/
cp $out/notes.md $dest/notes.md 2>/dev/null
export CARGO_TARGET_DIR=$wt/target
cd $wt || exit 2
git checkout -q -- . ; git clean -fdq tests/ 2>/dev/null
cp $demo tests/
base=$(basename $demo .rs)
echo "== without change: demo must pass"
cargo test --offline --test $base > $dest/demo_without.txt 2>&1; r0=$?
echo "rc=$r0"
echo "== with change"
git apply $dest/patch.diff || { echo "patch does not apply"; exit 2; }
cargo test --offline --test $base > $dest/demo_with.txt 2>&1; r1=$?
echo "demo rc=$r1 (must be non-zero)"
rm tests/$base.rs
cargo test --workspace --no-fail-fast --offline > $dest/suite_with.txt 2>&1; r2=$?
echo "suite rc=$r2 (must be 0): $(grep -h 'test result' $dest/suite_with.txt | head -3 | tr '\n' ' ')"
git checkout -q -- .
echo "== apply to /repo and run bin/check $prop"
unset CARGO_TARGET_DIR
cd ${SEED_REPO:-/repo} && git apply $dest/patch.diff || { echo "patch does not apply to /repo"; exit 2; }
cd ${SEED_VERIF:-/verif} && bin/check $prop --tier quick > $dest/check_with.txt 2>&1; rc=$?
git -C ${SEED_REPO:-/repo} checkout -- .
echo "check rc=$rc"; grep -m3 "VIOLATION\|TOOL-ERROR" $dest/check_with.txt; tail -8 $dest/check_with.txt | grep -v VIOLATION | head -8
echo "{\"name\": \"$name\", \"property\": \"$prop\", \"demo_without_rc\": $r0, \"demo_with_rc\": $r1, \"suite_with_rc\": $r2, \"check_rc\": $rc}" > $dest/result.json
