#!/bin/bash
# bin/privseed.sh <name> <prop> <out> <wt>: confirmation for seeds whose demonstration is a crate-private test module
set -u
name=$1; prop=$2; out=$3; wt=$4
dest=/verif/seeded/$name; mkdir -p $dest
cp $out/patch.diff $dest/; cp $out/*.rs $dest/; cp $out/notes.md $dest/ 2>/dev/null
export CARGO_TARGET_DIR=$wt/target
cd $wt || exit 2
git status --short
cargo test --offline --lib seed_demo > $dest/demo_with.txt 2>&1; r1=$?
echo "demo with change rc=$r1 (must be non-zero)"
cargo test --workspace --no-fail-fast --offline -- --skip seed_demo > $dest/suite_with.txt 2>&1; r2=$?
echo "suite rc=$r2: $(grep -h 'test result' $dest/suite_with.txt | head -3 | tr '\n' ' ')"
git apply -R $dest/patch.diff || { echo "cannot revert"; exit 2; }
cargo test --offline --lib seed_demo > $dest/demo_without.txt 2>&1; r0=$?
echo "demo without change rc=$r0 (must be 0)"
unset CARGO_TARGET_DIR
cd ${SEED_REPO:-/repo} && git apply $dest/patch.diff || { echo "patch does not apply to /repo"; exit 2; }
cd ${SEED_VERIF:-/verif} && bin/check $prop --tier quick > $dest/check_with.txt 2>&1; rc=$?
git -C ${SEED_REPO:-/repo} checkout -- .
echo "check rc=$rc"; grep -m3 "VIOLATION\|TOOL-ERROR" $dest/check_with.txt; tail -6 $dest/check_with.txt | grep -v VIOLATION
echo "{\"name\": \"$name\", \"property\": \"$prop\", \"demo_without_rc\": $r0, \"demo_with_rc\": $r1, \"suite_with_rc\": $r2, \"check_rc\": $rc}" > $dest/result.json
