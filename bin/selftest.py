#!/usr/bin/env python3
"""Self-test of the binding between specifications and code: recorded traces are corrupted in
one field / one event and every corruption must be rejected by the trace specification."""
import json
import os
import sys

sys.path.insert(0, os.path.dirname(os.path.abspath(__file__)))
import vlib  # noqa: E402
from vlib import run_itv, validate_trace  # noqa: E402


def lines(path):
    with open(path) as f:
        return [json.loads(x) for x in f if x.strip()]


def write(path, evs):
    with open(path, "w") as f:
        for e in evs:
            f.write(json.dumps(e) + "\n")


def expect(name, path, module, cfg, want_reject, reset_ev="reset"):
    total, rejected, _ = validate_trace(path, module, cfg, "selftest", reset_ev=reset_ev, max_rounds=2)
    ok = bool(rejected) == want_reject
    print(("PASS" if ok else "FAIL"), name, f"runs={total} rejected={len(rejected)}")
    return ok


def main():
    vlib.build_harness()
    os.makedirs(vlib.OUT, exist_ok=True)
    ok = True
    t = os.path.join(vlib.OUT, "selftest.ndjson")
    # ---- Metablock
    run_itv(["record", "C04", "300"], stdout_path=t)
    evs = lines(t)
    ok &= expect("metablock: untouched trace accepted", t, "Trace_Metablock", "Trace_Metablock.cfg", False)
    i = next(k for k, e in enumerate(evs) if e["ev"] == "result")
    bad = [dict(e) for e in evs]
    bad[i]["out"] = "ok" if bad[i]["out"] == "err" else "err"
    write(t, bad)
    ok &= expect("metablock: flipped verdict rejected", t, "Trace_Metablock", "Trace_Metablock.cfg", True)
    i = next(k for k, e in enumerate(evs) if e["ev"] == "sig_counted")
    bad = [dict(e) for e in evs]
    bad[i]["key"] = "kx"
    write(t, bad)
    ok &= expect("metablock: counted signature attributed to a foreign key rejected", t, "Trace_Metablock", "Trace_Metablock.cfg", True)
    bad = [e for k, e in enumerate(evs) if k != i]
    write(t, bad)
    ok &= expect("metablock: dropped sig_counted event rejected", t, "Trace_Metablock", "Trace_Metablock.cfg", True)
    # ---- Rules
    run_itv(["record", "C03", "300"], stdout_path=t)
    evs = lines(t)
    ok &= expect("rules: untouched trace accepted", t, "Trace_Rules", "Trace_Rules.cfg", False)
    i = next(k for k, e in enumerate(evs) if e["ev"] == "rule" and e["consumed"])
    bad = [json.loads(json.dumps(e)) for e in evs]
    bad[i]["consumed"] = bad[i]["consumed"][1:]
    write(t, bad)
    ok &= expect("rules: shrunk consumed set rejected", t, "Trace_Rules", "Trace_Rules.cfg", True)
    bad = [json.loads(json.dumps(e)) for e in evs]
    bad[i]["queue"] = bad[i]["queue"] + [["z", "z"]]
    write(t, bad)
    ok &= expect("rules: altered remaining queue rejected", t, "Trace_Rules", "Trace_Rules.cfg", True)
    # ---- Pae
    run_itv(["record", "C20", "100"], stdout_path=t)
    evs = lines(t)
    ok &= expect("pae: untouched trace accepted", t, "Trace_Pae", "Trace_Pae.cfg", False, reset_ev="pack")
    bad = [json.loads(json.dumps(e)) for e in evs]
    bad[0]["out"][7] = "9" if bad[0]["out"][7] != "9" else "8"
    write(t, bad)
    ok &= expect("pae: corrupted length field rejected", t, "Trace_Pae", "Trace_Pae.cfg", True, reset_ev="pack")
    os.remove(t)
    print("SELFTEST", "ok" if ok else "FAILED")
    return 0 if ok else 1


if __name__ == "__main__":
    sys.exit(main())
