"""Driver library: TLC runs, scenario streaming, harness replay, trace validation, evidence."""
import hashlib
import json
import os
import re
import shutil
import subprocess
import sys
import time

VERIF = os.path.dirname(os.path.dirname(os.path.abspath(__file__)))
SPEC = os.path.join(VERIF, "spec")
HARNESS = os.path.join(VERIF, "harness")
OUT = os.path.join(VERIF, "out")
ITV = os.path.join(HARNESS, "target", "release", "itv")
NSHARDS = int(os.environ.get("ITV_SHARDS", "16"))


class ToolError(Exception):
    """Anything that is not a verdict about the implementation (exit 2)."""


def log(*a):
    print(*a, file=sys.stderr, flush=True)


def seed():
    try:
        return int(os.environ.get("VERIF_SEED", "1"))
    except ValueError:
        return 1


# --------------------------------------------------------------------------- build
def build_harness():
    t0 = time.time()
    env = dict(os.environ, CARGO_NET_OFFLINE="true", CARGO_TARGET_DIR=os.path.join(HARNESS, "target"))
    env.pop("RUSTFLAGS", None)   # the hook cfg comes from harness/.cargo/config.toml
    lock = os.path.join(HARNESS, "Cargo.lock")
    if not os.path.exists(lock):
        shutil.copy("/repo/Cargo.lock", lock)
    p = subprocess.run(["cargo", "build", "--release", "--offline"], cwd=HARNESS, env=env,
                       stdout=subprocess.PIPE, stderr=subprocess.STDOUT, text=True)
    if p.returncode != 0:
        log(p.stdout[-4000:])
        raise ToolError("harness build failed (the library no longer compiles with hooks on?)")
    return time.time() - t0


# --------------------------------------------------------------------------- TLC
SCN_PREFIX = '<<"SCN", '


def parse_tlc_tuple_line(line):
    """<<"SCN", "<json as TLA string>">>  ->  python object"""
    body = line[len(SCN_PREFIX):].rstrip()
    if body.endswith(">>"):
        body = body[:-2]
    return json.loads(json.loads(body))


class TlcStats:
    def __init__(self):
        self.generated = 0
        self.distinct = 0
        self.depth = 0
        self.actions = {}
        self.errors = []
        self.wall = 0.0
        self.init_states = 0

    def merge(self, o):
        self.generated += o.generated
        self.distinct += o.distinct
        self.depth = max(self.depth, o.depth)
        for k, v in o.actions.items():
            self.actions[k] = self.actions.get(k, 0) + v
        self.errors += o.errors
        self.wall += o.wall
        self.init_states += o.init_states


TLC_CLASSPATH = "/opt/veriftools/tla/tla2tools.jar:/opt/veriftools/tla/CommunityModules-deps.jar"


def run_tlc(module, cfg, tag, on_scn=None, workers=16, timeout=1800, env_extra=None,
            simulate=None, java_opts=None, coverage=True, on_line=None):
    """Run TLC on spec/<module>.tla with spec/<cfg>; call on_scn(obj) for every scenario
    line; return TlcStats.  Raises ToolError on a TLC error (invariant violation in the
    specification itself, parse error, timeout)."""
    meta = os.path.join(OUT, "work", tag)
    shutil.rmtree(meta, ignore_errors=True)
    os.makedirs(meta, exist_ok=True)
    # JVM options go on the COMMAND LINE: the launcher sizes the main thread (which computes the initial states)
    # from its own arguments only - options in JAVA_TOOL_OPTIONS reach the threads started later, not that one
    tlc = ["tlc"]
    if java_opts:
        tlc = ["java"] + java_opts.split() + ["-XX:+UseParallelGC", "-cp", TLC_CLASSPATH, "tlc2.TLC"]
    cmd = ["timeout", str(timeout)] + tlc + ["-workers", str(workers), "-metadir", meta, "-cleanup",
           "-noGenerateSpecTE", "-config", cfg]
    if coverage and not simulate:
        cmd += ["-coverage", "1"]
    if simulate:
        cmd += ["-simulate", simulate[0], "-depth", str(simulate[1]), "-seed", str(seed())]
    cmd.append(module + ".tla")
    env = dict(os.environ)
    if env_extra:
        env.update(env_extra)
    st = TlcStats()
    t0 = time.time()
    p = subprocess.Popen(cmd, cwd=SPEC, env=env, stdout=subprocess.PIPE, stderr=subprocess.STDOUT,
                         text=True, bufsize=1 << 20)
    tail = []
    act_re = re.compile(r"^<(\w+) line \d+, col \d+ to line \d+, col \d+ of module (\w+)(?: \([\d ]+\))?>: (\d+):(\d+)")
    for line in p.stdout:
        if line.startswith(SCN_PREFIX):
            if on_scn:
                try:
                    on_scn(parse_tlc_tuple_line(line))
                except json.JSONDecodeError:
                    st.errors.append("unparsable scenario line: " + line[:200])
            continue
        if on_line and on_line(line):
            continue
        if line.startswith("  ") or line.startswith("Parsing") or line.startswith("Semantic") \
                or line.startswith("Linting") or line.startswith("Computed "):
            continue
        tail.append(line.rstrip())
        if len(tail) > 400:
            tail = tail[-200:]
        m = re.match(r"^(\d+) states generated, (\d+) distinct states found", line)
        if m:
            st.generated = int(m.group(1))
            st.distinct = int(m.group(2))
        m = re.match(r"^The depth of the complete state graph search is (\d+)", line)
        if m:
            st.depth = int(m.group(1))
        m = re.match(r"^Finished computing initial states: (\d+) distinct", line)
        if m:
            st.init_states = int(m.group(1))
        m = act_re.match(line)
        if m:
            st.actions[m.group(1)] = st.actions.get(m.group(1), 0) + int(m.group(4))
        if line.startswith("Error:") or "is violated" in line or "TLC threw" in line \
                or "Exception" in line or line.startswith("***Parse Error***") or "Fatal error" in line:
            st.errors.append(line.strip())
    rc = p.wait()
    st.wall = time.time() - t0
    shutil.rmtree(meta, ignore_errors=True)
    if rc == 124:
        raise ToolError(f"TLC timed out on {module} ({cfg})")
    st.tail = tail
    st.rc = rc
    return st


def require_clean(st, what):
    if st.errors or st.rc not in (0,):
        log("\n".join(st.tail[-40:]))
        raise ToolError(f"TLC reported an error on the specification itself ({what}): {st.errors[:3]} rc={st.rc}")


# --------------------------------------------------------------------------- replay
class Sharder:
    """Round-robin writer of scenario lines to shard files, then runs the harness on them."""

    def __init__(self, tag, nshards=NSHARDS):
        self.dir = os.path.join(OUT, "shards", tag)
        shutil.rmtree(self.dir, ignore_errors=True)
        os.makedirs(self.dir, exist_ok=True)
        self.n = nshards
        self.files = [open(os.path.join(self.dir, f"in{i}.ndjson"), "w") for i in range(nshards)]
        self.count = 0

    def add(self, scn):
        scn["i"] = self.count
        self.files[self.count % self.n].write(json.dumps(scn, separators=(",", ":")) + "\n")
        self.count += 1
        return self.count - 1

    def run(self, env_extra=None, timeout=3600, per_shard_cwd=False, tolerate_death=False):
        self.deaths = []
        for f in self.files:
            f.close()
        env = dict(os.environ)
        if env_extra:
            env.update(env_extra)
        procs = []
        for i in range(self.n):
            inp = open(os.path.join(self.dir, f"in{i}.ndjson"))
            outp = open(os.path.join(self.dir, f"out{i}.ndjson"), "w")
            errp = open(os.path.join(self.dir, f"err{i}.txt"), "w")
            cwd = self.dir
            if per_shard_cwd:
                cwd = os.path.join(self.dir, f"cwd{i}")
                os.makedirs(cwd, exist_ok=True)
            procs.append((subprocess.Popen([ITV, "replay"], stdin=inp, stdout=outp, stderr=errp, cwd=cwd, env=env), inp, outp, errp))
        t0 = time.time()
        for p, inp, outp, errp in procs:
            try:
                rc = p.wait(timeout=max(1, timeout - (time.time() - t0)))
            except subprocess.TimeoutExpired:
                for q, *_ in procs:
                    q.kill()
                raise ToolError("harness replay timed out")
            inp.close(); outp.close(); errp.close()
            if rc != 0:
                if tolerate_death:
                    self.deaths.append((procs.index((p, inp, outp, errp)), rc))
                else:
                    raise ToolError(f"harness replay exited with {rc}; see {self.dir}/err*.txt")

    def results(self):
        for i in range(self.n):
            with open(os.path.join(self.dir, f"out{i}.ndjson")) as f:
                for line in f:
                    # the library itself prints debugging text to stdout in places
                    # (PredicateWrapper::judge_from_value); result lines are JSON objects with an "i" member
                    if line.startswith("{") and '"i":' in line:
                        try:
                            yield json.loads(line)
                        except json.JSONDecodeError:
                            continue

    def scenario(self, idx):
        with open(os.path.join(self.dir, f"in{idx % self.n}.ndjson")) as f:
            for line in f:
                if line.startswith('{"') and f'"i":{idx}' in line:
                    o = json.loads(line)
                    if o.get("i") == idx:
                        return o
        return None

    def cleanup(self):
        shutil.rmtree(self.dir, ignore_errors=True)


def run_itv(args, stdout_path=None, env_extra=None, cwd=None, timeout=3600, stdin_path=None):
    env = dict(os.environ)
    if env_extra:
        env.update(env_extra)
    so = open(stdout_path, "w") if stdout_path else subprocess.PIPE
    si = open(stdin_path) if stdin_path else subprocess.DEVNULL
    try:
        p = subprocess.run([ITV] + args, stdout=so, stderr=subprocess.PIPE, stdin=si, env=env, cwd=cwd, timeout=timeout, text=True)
    except subprocess.TimeoutExpired:
        raise ToolError("harness timed out: " + " ".join(args))
    finally:
        if stdout_path:
            so.close()
        if stdin_path:
            si.close()
    if p.returncode != 0:
        raise ToolError(f"harness {' '.join(args)} exited {p.returncode}: {p.stderr[-2000:]}")
    return p.stdout if not stdout_path else None


# --------------------------------------------------------------------------- trace validation
def validate_trace(trace_path, module, cfg, tag, max_rounds=25, timeout=900, reset_ev="reset"):
    """Validate an ndjson trace of concatenated runs against spec/<module>.  Returns
    (runs_total, rejected) where rejected is a list of dicts {run_lines, at, event}."""
    with open(trace_path) as f:
        lines = [ln for ln in f.read().split("\n") if ln.strip()]
    # split into runs
    runs = []
    for ln in lines:
        if f'"ev":"{reset_ev}"' in ln.replace(" ", "") or not runs:
            runs.append([])
        runs[-1].append(ln)
    total = len(runs)
    rejected = []
    stats = TlcStats()
    work = os.path.join(OUT, "work", tag + ".trace.ndjson")
    rounds = 0
    while runs and rounds < max_rounds:
        rounds += 1
        with open(work, "w") as f:
            for r in runs:
                f.write("\n".join(r) + "\n")
        rej = {}

        def on_line(line):
            if line.startswith('<<"REJECTED_AT"'):
                m = re.match(r'<<"REJECTED_AT", (\d+)', line.strip())
                rej["at"] = int(m.group(1))
                return True
            return False

        st = run_tlc(module, cfg, tag, workers=1, timeout=timeout, env_extra={"TRACE": work},
                     java_opts="-Xss1g -Dtlc2.tool.queue.IStateQueue=StateDeque", coverage=False, on_line=on_line)
        stats.merge(st)
        post_false = any("Postcondition" in e and "is false" in e for e in st.errors)
        other = [e for e in st.errors if not ("Postcondition" in e and "is false" in e)]
        if other or (st.rc != 0 and not post_false):
            log("\n".join(st.tail[-40:]))
            raise ToolError(f"TLC error during trace validation ({module}): {other[:3]} rc={st.rc}")
        if not post_false:
            break
        # find the run containing line rej["at"]
        at = rej.get("at", 1)
        n = 0
        for k, r in enumerate(runs):
            if n + len(r) >= at or k == len(runs) - 1:
                k_at = max(1, min(len(r), at - n))
                rejected.append({"lines": r, "at": k_at, "event": r[k_at - 1]})
                runs = runs[k + 1:]
                break
            n += len(r)
    try:
        os.remove(work)
    except OSError:
        pass
    return total, rejected, stats


# --------------------------------------------------------------------------- findings & evidence
def load_findings():
    """known-findings.txt: `fixed:` lines suppress nothing; `open:` lines carry a match object."""
    path = os.path.join(VERIF, "known-findings.txt")
    out = []
    if os.path.exists(path):
        with open(path) as f:
            for line in f:
                line = line.strip()
                if line.startswith("open:"):
                    m = re.match(r"open:\s+property=(\S+)\s+match=(\{.*?\})\s+::\s*(.*)$", line)
                    if not m:
                        raise ToolError("unparsable known-findings line: " + line)
                    out.append({"status": "open", "property": m.group(1), "match": json.loads(m.group(2)), "what": m.group(3)})
                elif line.startswith("fixed:"):
                    m = re.match(r"fixed:\s+property=(\S+)\s+(\S+)\s+(.*)$", line)
                    if m:
                        out.append({"status": "fixed", "property": m.group(1), "commit": m.group(2), "what": m.group(3)})
    return out


def explain(prop, sig, findings):
    """Return the open finding that explains mismatch signature `sig`, else None."""
    for fd in findings:
        if fd.get("property") != prop or fd.get("status") != "open":
            continue
        m = fd.get("match", {})
        if m and all(sig.get(k) == v for k, v in m.items()):
            return fd
    return None


def scn_key(scn, drop=("out", "allow", "dv", "i", "good", "once", "expect", "note")):
    d = {k: v for k, v in scn.items() if k not in drop}
    return hashlib.md5(json.dumps(d, sort_keys=True).encode()).hexdigest()


class Report:
    """Collects what a check covered and what it found; writes evidence; decides exit code."""

    def __init__(self, prop, tier, level):
        self.prop = prop
        self.tier = tier
        self.level = level
        self.t0 = time.time()
        self.findings = load_findings()
        self.violations = []      # (sig, replay_obj)
        self.known = {}           # finding what -> count
        self.cov = {"states": 0, "transitions": 0, "traces_validated_against_impl": 0, "samples": [],
                    "evaluations": 0, "distinct_nontrivial": 0, "rule": "", "exhaustive": False,
                    "actions": {}, "drift": 0, "unstable": 0, "parts": {}}
        self.assumptions = []
        import glob
        for old in glob.glob(os.path.join(OUT, "replay", f"{prop}_{tier}_*.json")):
            os.remove(old)
        self._nontrivial = set()
        self._samples_max = 6

    def add_tlc(self, st, part):
        self.cov["states"] += st.distinct
        self.cov["transitions"] += st.generated
        for k, v in st.actions.items():
            self.cov["actions"][k] = self.cov["actions"].get(k, 0) + v
        self.cov["parts"][part] = {"distinct_states": st.distinct, "states_generated": st.generated,
                                   "depth": st.depth, "tlc_wall_s": round(st.wall, 1)}

    def sample(self, obj):
        if len(self.cov["samples"]) < self._samples_max:
            self.cov["samples"].append(obj)

    def nontrivial(self, key):
        self._nontrivial.add(key)

    def mismatch(self, sig, replay_obj):
        """A mismatch between implementation and requirement.  sig: small dict describing it."""
        fd = explain(self.prop, sig, self.findings)
        if fd is not None:
            w = fd.get("what", fd.get("deviation", "?"))
            self.known[w] = self.known.get(w, 0) + 1
        else:
            if len(self.violations) < 8:
                obj = replay_obj() if callable(replay_obj) else replay_obj
                self.violations.append((sig, obj))
            else:
                self.violations.append((sig, None))

    def vacuity(self, needed_actions):
        missing = [a for a in needed_actions if self.cov["actions"].get(a, 0) == 0]
        if missing:
            raise ToolError(f"vacuity: specification actions never taken: {missing}")

    def finish(self):
        self.cov["distinct_nontrivial"] = len(self._nontrivial)
        ev = {"property_id": self.prop, "tier": self.tier, "seed": seed(), "level": self.level,
              "coverage": self.cov, "assumptions": self.assumptions,
              "wall_s": round(time.time() - self.t0, 1), "violations": len(self.violations),
              "known_findings": self.known}
        os.makedirs(os.path.join(VERIF, "evidence"), exist_ok=True)
        with open(os.path.join(VERIF, "evidence", f"{self.prop}.json"), "w") as f:
            json.dump(ev, f, indent=1, sort_keys=True)
            f.write("\n")
        for w, n in sorted(self.known.items()):
            print(f"KNOWN-FINDING: property={self.prop} {w} ({n} cases)")
        if self.violations:
            rdir = os.path.join(OUT, "replay")
            os.makedirs(rdir, exist_ok=True)
            shown = 0
            for k, (sig, obj) in enumerate(self.violations):
                if obj is None or shown >= 5:
                    continue
                path = os.path.join(rdir, f"{self.prop}_{self.tier}_{k}.json")
                with open(path, "w") as f:
                    json.dump({"property": self.prop, "signature": sig, "case": obj, "seed": seed()}, f, indent=1)
                print(f"VIOLATION property={self.prop} replay={path}")
                log("   ", json.dumps(sig)[:600])
                shown += 1
            log(f"{len(self.violations)} violating case(s) in total")
            kinds = {}
            for sig, _ in self.violations:
                k = json.dumps({a: b for a, b in sig.items() if a in ("kind", "class", "dev", "doc", "problem")}, sort_keys=True)
                kinds[k] = kinds.get(k, 0) + 1
            for k, n in sorted(kinds.items(), key=lambda kv: -kv[1])[:12]:
                log(f"   {n:7d}  {k}")
            return 1
        return 0
