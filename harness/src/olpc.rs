//! Independent reference renderings: OLPC canonical JSON (in-toto / securesystemslib signing
//! encoding) and the character-class vocabulary of CJson.tla.
use rand::Rng;
use serde_json::Value;

/// OLPC canonical JSON: members sorted by code point, no whitespace, integers only,
/// strings with only backslash and double quote escaped.
pub fn olpc(v: &Value, out: &mut Vec<u8>) -> Result<(), String> {
    match v {
        Value::Null => out.extend(b"null"),
        Value::Bool(true) => out.extend(b"true"),
        Value::Bool(false) => out.extend(b"false"),
        Value::Number(n) => {
            if let Some(i) = n.as_i64() {
                out.extend(i.to_string().as_bytes());
            } else if let Some(u) = n.as_u64() {
                out.extend(u.to_string().as_bytes());
            } else {
                return Err("non-integer".into());
            }
        }
        Value::String(s) => olpc_str(s, out),
        Value::Array(a) => {
            out.push(b'[');
            for (i, x) in a.iter().enumerate() {
                if i > 0 {
                    out.push(b',');
                }
                olpc(x, out)?;
            }
            out.push(b']');
        }
        Value::Object(o) => {
            let mut keys: Vec<&String> = o.keys().collect();
            keys.sort();
            out.push(b'{');
            for (i, k) in keys.iter().enumerate() {
                if i > 0 {
                    out.push(b',');
                }
                olpc_str(k, out);
                out.push(b':');
                olpc(&o[*k], out)?;
            }
            out.push(b'}');
        }
    }
    Ok(())
}

pub fn olpc_str(s: &str, out: &mut Vec<u8>) {
    out.push(b'"');
    for c in s.chars() {
        match c {
            '\\' => out.extend(b"\\\\"),
            '"' => out.extend(b"\\\""),
            c => {
                let mut b = [0u8; 4];
                out.extend(c.encode_utf8(&mut b).as_bytes());
            }
        }
    }
    out.push(b'"');
}

pub fn olpc_bytes(v: &Value) -> Vec<u8> {
    let mut out = vec![];
    olpc(v, &mut out).expect("integer-only document");
    out
}

pub fn class_of(c: char) -> &'static str {
    match c {
        '"' => "Q",
        '\\' => "B",
        '\n' => "N",
        '\u{8}' | '\u{c}' | '\r' | '\t' => "E",
        c if (c as u32) < 0x20 => "C",
        '\u{7f}' => "D",
        'n' => "n",
        'u' => "u",
        c if (c as u32) < 0x80 => "A",
        c if (c as u32) < 0x10000 => "U",
        _ => "S",
    }
}

static CYCLE: std::sync::atomic::AtomicUsize = std::sync::atomic::AtomicUsize::new(0);

/// all members of the small control classes, visited round-robin so that every one of them is
/// exercised within a few dozen instantiations
fn cycle(members: &[char]) -> char {
    let n = CYCLE.fetch_add(1, std::sync::atomic::Ordering::Relaxed);
    members[n % members.len()]
}

/// one member of a class (seeded; the small control classes round-robin)
pub fn member(class: &str, rng: &mut impl Rng) -> char {
    match class {
        "Q" => '"',
        "B" => '\\',
        "N" => '\n',
        "E" => cycle(&['\u{8}', '\u{c}', '\r', '\t']),
        "C" => {
            let all: Vec<char> = (0u32..0x20).filter_map(char::from_u32).filter(|c| class_of(*c) == "C").collect();
            cycle(&all)
        }
        "D" => '\u{7f}',
        "n" => 'n',
        "u" => 'u',
        "A" => loop {
            let c = char::from_u32(rng.gen_range(0x20..0x7f)).unwrap();
            if class_of(c) == "A" {
                break c;
            }
        },
        "U" => {
            let picks = ['\u{80}', '\u{e9}', '\u{2028}', '\u{2029}', '\u{d7ff}', '\u{e000}', '\u{feff}', '\u{ffff}', '\u{4e2d}'];
            if rng.gen_bool(0.5) {
                picks[rng.gen_range(0..picks.len())]
            } else {
                loop {
                    if let Some(c) = char::from_u32(rng.gen_range(0x80..0x10000)) {
                        break c;
                    }
                }
            }
        }
        "S" => {
            let picks = ['\u{10000}', '\u{1f600}', '\u{10ffff}'];
            if rng.gen_bool(0.5) {
                picks[rng.gen_range(0..picks.len())]
            } else {
                char::from_u32(rng.gen_range(0x10000..0x110000)).unwrap()
            }
        }
        other => panic!("class {other}"),
    }
}

pub fn instantiate(classes: &Value, rng: &mut impl Rng) -> String {
    classes.as_array().unwrap().iter().map(|c| member(c.as_str().unwrap(), rng)).collect()
}

/// atoms (CJson.tla vocabulary) of a rendered string body (without the surrounding quotes),
/// for a renderer that only uses two-character escapes of backslash and quote
pub fn atoms_of_olpc_body(body: &str) -> Vec<String> {
    let mut out = vec![];
    let mut it = body.chars().peekable();
    while let Some(c) = it.next() {
        if c == '\\' {
            out.push("\\".to_string());
            match it.next() {
                Some('"') => out.push("\"".to_string()),
                Some('\\') => out.push("\\".to_string()),
                Some(o) => out.push(format!("?{o}")),
                None => out.push("?eof".to_string()),
            }
        } else if c == '\n' {
            out.push("LF".to_string());
        } else {
            out.push(class_of(c).to_string());
        }
    }
    out
}
