//! Concrete key material for abstract key names.
use in_toto::crypto::{KeyId, PrivateKey, PublicKey, Signature, SignatureScheme};
use std::collections::HashMap;

macro_rules! fx {
    ($n:literal) => {
        include_bytes!(concat!("../fixtures/", $n)) as &[u8]
    };
}

const ED: [&[u8]; 9] = [
    fx!("ed25519-1.pk8.der"),
    fx!("ed25519-2.pk8.der"),
    fx!("ed25519-3.pk8.der"),
    fx!("ed25519-4.pk8.der"),
    fx!("ed25519-5.pk8.der"),
    fx!("ed25519-6.pk8.der"),
    fx!("ed25519-7.pk8.der"),
    fx!("ed25519-8.pk8.der"),
    fx!("ed25519-9.pk8.der"),
];
const EC: [&[u8]; 3] = [fx!("ecdsa-1.pk8.der"), fx!("ecdsa-2.pk8.der"), fx!("ecdsa-3.pk8.der")];
// the third 2048-bit key has the public exponent 0xC0000001 (DER INTEGER with a leading zero byte)
const RSA2: [&[u8]; 3] = [fx!("rsa2048-1.pk8.der"), fx!("rsa2048-2.pk8.der"), fx!("rsa2048-3-bigexp.pk8.der")];
// ("rsa4096" = the larger keys: two of 4096 bits and one of 3072 bits)
const RSA4: [&[u8]; 3] = [fx!("rsa4096-1.pk8.der"), fx!("rsa4096-2.pk8.der"), fx!("rsa3072-1.pk8.der")];

/// public half (PKCS#1 RSAPublicKey and SubjectPublicKeyInfo, made by openssl) of an 8192-bit RSA key
pub const RSA8192_PKCS1: &[u8] = fx!("rsa8192-1.pkcs1.der");
pub const RSA8192_SPKI: &[u8] = fx!("rsa8192-1.spki.der");
/// public halves only (PKCS#1, SubjectPublicKeyInfo): the largest supported size, and a size (2368 bits) whose
/// SubjectPublicKeyInfo fills the last line of its PEM armour exactly
pub const RSA_PUBLIC_ONLY: [(&[u8], &[u8]); 2] =
    [(RSA8192_PKCS1, RSA8192_SPKI), (fx!("rsa2368-1.pkcs1.der"), fx!("rsa2368-1.spki.der"))];

pub const FAMILIES: [&str; 6] =
    ["ed25519", "ecdsa", "rsa2048-256", "rsa2048-512", "rsa4096-256", "rsa4096-512"];

/// number of distinct keys available in a family
pub fn family_size(f: &str) -> usize {
    match f {
        "ed25519" => ED.len(),
        "ecdsa" => EC.len(),
        _ => 3,
    }
}

pub fn load(family: &str, idx: usize) -> PrivateKey {
    let (der, scheme) = match family {
        "ed25519" => (ED[idx], SignatureScheme::Ed25519),
        "ecdsa" => (EC[idx], SignatureScheme::EcdsaP256Sha256),
        "rsa2048-256" => (RSA2[idx], SignatureScheme::RsaSsaPssSha256),
        "rsa2048-512" => (RSA2[idx], SignatureScheme::RsaSsaPssSha512),
        "rsa4096-256" => (RSA4[idx], SignatureScheme::RsaSsaPssSha256),
        "rsa4096-512" => (RSA4[idx], SignatureScheme::RsaSsaPssSha512),
        _ => panic!("unknown family {family}"),
    };
    PrivateKey::from_pkcs8(der, scheme).expect("fixture key")
}

pub fn raw_der(family: &str, idx: usize) -> &'static [u8] {
    match family {
        "ed25519" => ED[idx],
        "ecdsa" => EC[idx],
        "rsa2048-256" | "rsa2048-512" => RSA2[idx],
        _ => RSA4[idx],
    }
}

/// Assignment of abstract key names to concrete keys.  The first names get
/// keys of `family` while that family has keys left; the rest are ed25519
/// (taken from the end of the ed25519 pool so they never collide).
pub struct KeyMap {
    pub family: String,
    map: HashMap<String, PrivateKey>,
    by_id: HashMap<String, String>,
    /// names that stand for a public key nobody holds the private half of (e.g. a key whose scheme this
    /// library does not implement)
    public_only: HashMap<String, PublicKey>,
}

impl KeyMap {
    pub fn new(family: &str, names: &[&str]) -> KeyMap {
        let mut map = HashMap::new();
        let mut by_id = HashMap::new();
        let fam_n = family_size(family);
        let mut ed_next = ED.len();
        for (i, n) in names.iter().enumerate() {
            let k = if i < fam_n && (family != "ed25519" || i < ED.len()) {
                load(family, i)
            } else {
                ed_next -= 1;
                load("ed25519", ed_next)
            };
            by_id.insert(kid_str(k.key_id()), n.to_string());
            map.insert(n.to_string(), k);
        }
        assert_eq!(by_id.len(), names.len(), "key names must map to distinct keys");
        KeyMap { family: family.to_string(), map, by_id, public_only: HashMap::new() }
    }
    pub fn add(&mut self, name: &str, k: PrivateKey) {
        self.by_id.insert(kid_str(k.key_id()), name.to_string());
        self.map.insert(name.to_string(), k);
    }
    pub fn add_public(&mut self, name: &str, k: PublicKey) {
        self.by_id.insert(kid_str(k.key_id()), name.to_string());
        self.public_only.insert(name.to_string(), k);
    }
    /// the public key of `of` re-declared with a signature scheme this library does not know
    pub fn unknown_scheme_twin(&self, _of: &str) -> PublicKey {
        // (an RSA fixture whatever the family: it is the key type whose declaration admits other schemes)
        let base = load("rsa2048-256", 1);
        PublicKey::from_spki(&base.public().as_spki().unwrap(), SignatureScheme::Unknown("rsa-pkcs1v15-sha256".into()))
            .expect("a key with an unknown scheme is representable")
    }
    pub fn sk(&self, name: &str) -> &PrivateKey {
        self.map.get(name).unwrap_or_else(|| panic!("no key {name}"))
    }
    pub fn pk(&self, name: &str) -> &PublicKey {
        if let Some(k) = self.public_only.get(name) {
            return k;
        }
        self.sk(name).public()
    }
    pub fn id(&self, name: &str) -> KeyId {
        self.pk(name).key_id().clone()
    }
    pub fn idstr(&self, name: &str) -> String {
        // "<name>~": an identifier that only looks like <name>'s (same beginning, another last character)
        if let Some(base) = name.strip_suffix('~') {
            let mut id = self.idstr(base);
            let last = id.pop().unwrap();
            id.push(if last == '0' { '1' } else { '0' });
            return id;
        }
        // "<name>^": <name>'s identifier spelt with upper-case hexadecimal letters (another identifier)
        if let Some(base) = name.strip_suffix('^') {
            return self.idstr(base).to_uppercase();
        }
        kid_str(self.pk(name).key_id())
    }
    /// abstract name of a concrete key id (or the id itself when unknown)
    pub fn name_of(&self, id: &str) -> String {
        self.by_id.get(id).cloned().unwrap_or_else(|| id.to_string())
    }
}

pub fn kid_str(k: &KeyId) -> String {
    serde_json::to_value(k).unwrap().as_str().unwrap().to_string()
}

/// A signature record with an arbitrary claimed key id and value.
pub fn make_sig(claimed: &str, value: &[u8]) -> Signature {
    serde_json::from_value(serde_json::json!({
        "keyid": claimed,
        "sig": data_encoding::HEXLOWER.encode(value),
    }))
    .expect("signature record")
}
