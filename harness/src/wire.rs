//! Wire.tla scenarios (C16, C17, C19): rule grammar, document round trips, channels, attestation schemas.
use crate::c10::{spell_value, SpellMode};
use crate::common::*;
use crate::keys::*;
use crate::olpc::instantiate;
use in_toto::models::byproducts::ByProducts;
use in_toto::models::inspection::Inspection;
use in_toto::models::rule::{Artifact, ArtifactRule};
use in_toto::models::step::{Command, Step};
use in_toto::models::{
    LayoutMetadataBuilder, LinkMetadataBuilder, Metablock, MetadataWrapper, PredicateWrapper, StatementVer, StatementWrapper,
    VirtualTargetPath,
};
use serde::de::DeserializeOwned;
use serde::Serialize;
use serde_json::{json, Value};
use std::collections::BTreeMap;
use std::fmt::Debug;

/// serde_json's four entry points and the library's own decoding helpers (Json / JsonPretty interchange)
pub const CHANNELS: [&str; 10] = ["str", "slice", "reader", "value", "json_slice", "json_reader", "json_tree", "jsonpretty_reader",
    // readers that hand the text out in small pieces (a pipe, a socket)
    "reader_pieces", "json_reader_pieces"];

/// a reader that returns at most `step` bytes per call (short reads long before the end)
struct Pieces {
    data: Vec<u8>,
    pos: usize,
    step: usize,
}

impl std::io::Read for Pieces {
    fn read(&mut self, buf: &mut [u8]) -> std::io::Result<usize> {
        let n = self.step.min(buf.len()).min(self.data.len() - self.pos);
        buf[..n].copy_from_slice(&self.data[self.pos..self.pos + n]);
        self.pos += n;
        Ok(n)
    }
}

fn pieces(text: &str) -> Pieces {
    let step = [1usize, 7, 100][text.len() % 3];
    Pieces { data: text.as_bytes().to_vec(), pos: 0, step }
}
/// three spellings of the same document and three damaged texts that every channel must reject alike
pub const SPELLINGS: [&str; 11] = ["plain", "ws", "uescape", "trailing_garbage", "concatenated", "truncated",
    // padding that is NOT JSON white space (form feed, vertical tab, no-break space, byte order mark, NUL)
    "pad_ff", "pad_vt", "pad_nbsp", "pad_bom", "pad_nul"];

/// parse `text` through one channel; None = the channel could not even be fed (text is not JSON)
pub fn parse_via<T: DeserializeOwned>(text: &str, channel: &str) -> Result<Result<T, String>, String> {
    guarded(|| match channel {
        "str" => serde_json::from_str::<T>(text).map_err(|e| e.to_string()),
        "slice" => serde_json::from_slice::<T>(text.as_bytes()).map_err(|e| e.to_string()),
        "reader" => serde_json::from_reader::<_, T>(std::io::Cursor::new(text.as_bytes().to_vec())).map_err(|e| e.to_string()),
        "value" => {
            let v: Value = serde_json::from_str(text).map_err(|e| format!("not json: {e}"))?;
            serde_json::from_value::<T>(v).map_err(|e| e.to_string())
        }
        "json_slice" => <in_toto::interchange::Json as in_toto::interchange::DataInterchange>::from_slice::<T>(text.as_bytes()).map_err(|e| e.to_string()),
        "json_reader" => <in_toto::interchange::Json as in_toto::interchange::DataInterchange>::from_reader::<_, T>(std::io::Cursor::new(text.as_bytes().to_vec())).map_err(|e| e.to_string()),
        "jsonpretty_reader" => <in_toto::interchange::JsonPretty as in_toto::interchange::DataInterchange>::from_reader::<_, T>(std::io::Cursor::new(text.as_bytes().to_vec())).map_err(|e| e.to_string()),
        "reader_pieces" => serde_json::from_reader::<_, T>(pieces(text)).map_err(|e| e.to_string()),
        "json_reader_pieces" => <in_toto::interchange::Json as in_toto::interchange::DataInterchange>::from_reader::<_, T>(pieces(text)).map_err(|e| e.to_string()),
        "json_tree" => {
            let v: Value = serde_json::from_str(text).map_err(|e| format!("not json: {e}"))?;
            <in_toto::interchange::Json as in_toto::interchange::DataInterchange>::deserialize::<T>(&v).map_err(|e| e.to_string())
        }
        _ => Err("channel".into()),
    })
}

pub fn respell(text: &str, spelling: &str) -> String {
    let v: Value = serde_json::from_str(text).expect("own serialisation is JSON");
    match spelling {
        "plain" => text.to_string(),
        "trailing_garbage" => format!("{text} x"),
        "concatenated" => format!("{text}{text}"),
        "truncated" => text[..text.len().saturating_sub(1)].to_string(),
        "pad_ff" => format!("\u{c}{text}\u{c}"),
        "pad_vt" => format!(" {text}\u{b}"),
        "pad_nbsp" => format!("{text}\u{a0}"),
        "pad_bom" => format!("\u{feff}{text}"),
        "pad_nul" => format!("{text}\u{0}"),
        "ws" => spell_value(&v, SpellMode { reverse: false, spaces: true, escape_all: false, slash: false }),
        _ => spell_value(&v, SpellMode { reverse: true, spaces: false, escape_all: true, slash: false }),
    }
}

/// C17 over one document: every channel x spelling must agree with (str, plain)
fn channels<T: DeserializeOwned + PartialEq + Debug>(text: &str) -> (bool, Option<String>, Option<T>) {
    channels_x::<T>(text, None)
}

type ExtraChannel<'a, T> = Option<(&'a str, &'a dyn Fn(&str) -> Result<Result<T, String>, String>)>;

/// texts in which one member of an object occurs twice (with different values; once with its name spelt with
/// an escape): no tree can hold such a document, so only the channels that read TEXT are compared on them
pub fn duplicate_member_texts(text: &str) -> Vec<String> {
    let v: Value = match serde_json::from_str(text) {
        Ok(v) => v,
        Err(_) => return vec![],
    };
    let mut out = vec![];
    let alt = |x: &Value| match x {
        Value::String(_) => json!("dup"),
        Value::Number(_) => json!(7),
        Value::Array(_) => json!([]),
        Value::Object(_) => json!({}),
        _ => json!(0),
    };
    // root object, and the object under "signed" if there is one
    for ptr in ["", "/signed"] {
        if let Some(Value::Object(o)) = v.pointer(ptr) {
            for (k, x) in o.iter().take(6) {
                for escaped in [false, true] {
                    let name = if escaped && !k.is_empty() {
                        let c = k.chars().next().unwrap();
                        format!("\"\\u{:04x}{}\"", c as u32, &serde_json::to_string(&k[c.len_utf8()..]).unwrap().trim_matches('"'))
                    } else {
                        serde_json::to_string(k).unwrap()
                    };
                    // the duplicate goes in front of the object's own members
                    let mut o2 = String::from("{");
                    o2.push_str(&format!("{}:{},", name, alt(x)));
                    o2.push_str(&Value::Object(o.clone()).to_string()[1..]);
                    let whole = if ptr.is_empty() {
                        o2
                    } else {
                        let mut root = v.clone();
                        root["signed"] = json!("@@SIGNED@@");
                        root.to_string().replace("\"@@SIGNED@@\"", &o2)
                    };
                    out.push(whole);
                }
            }
        }
    }
    out
}

/// Texts in which one member of one object (at any depth; a budget of them spread over the document) gets a SIBLING
/// whose name differs from its own only in letter case, carrying another value of the same kind, written right
/// AFTER it or right BEFORE it.  Two different names: nothing is repeated, every channel - the tree ones included -
/// must give the same answer, whichever member a reader happens to meet last.
pub fn case_variant_member_texts(text: &str) -> Vec<String> {
    let v: Value = match serde_json::from_str(text) {
        Ok(v) => v,
        Err(_) => return vec![],
    };
    // paths of all object members whose name has a letter
    fn collect(v: &Value, path: &mut Vec<String>, out: &mut Vec<Vec<String>>) {
        match v {
            Value::Object(o) => {
                for (k, x) in o {
                    path.push(k.clone());
                    if k.chars().any(|c| c.is_ascii_alphabetic()) {
                        out.push(path.clone());
                    }
                    collect(x, path, out);
                    path.pop();
                }
            }
            Value::Array(a) => {
                for (i, x) in a.iter().enumerate() {
                    path.push(format!("#{i}"));
                    collect(x, path, out);
                    path.pop();
                }
            }
            _ => {}
        }
    }
    let mut all = vec![];
    collect(&v, &mut vec![], &mut all);
    let budget = 10usize;
    let stride = (all.len() / budget).max(1);
    let chosen: Vec<Vec<String>> = all.iter().step_by(stride).take(budget).cloned().collect();
    fn other(x: &Value) -> Value {
        match x {
            Value::String(t) if !t.is_empty() => {
                let mut c: Vec<char> = t.chars().collect();
                c[0] = if c[0] == '0' { '1' } else { '0' };
                json!(c.into_iter().collect::<String>())
            }
            Value::String(_) => json!("x"),
            Value::Number(_) => json!(7),
            Value::Array(_) => json!([]),
            Value::Object(_) => json!({}),
            Value::Bool(b) => json!(!b),
            Value::Null => json!(0),
        }
    }
    // writer: the document as compact text, with `extra` written next to the member at `target`
    fn write(v: &Value, path: &mut Vec<String>, target: &[String], after: bool, out: &mut String) {
        match v {
            Value::Object(o) => {
                out.push('{');
                let mut first = true;
                for (k, x) in o {
                    path.push(k.clone());
                    let here = path.as_slice() == target;
                    let twin = if k.chars().any(|c| c.is_ascii_lowercase()) { k.to_uppercase() } else { k.to_lowercase() };
                    let twin_text = format!("{}:{}", serde_json::to_string(&twin).unwrap(), other(x));
                    if !first {
                        out.push(',');
                    }
                    first = false;
                    if here && !after {
                        out.push_str(&twin_text);
                        out.push(',');
                    }
                    out.push_str(&serde_json::to_string(k).unwrap());
                    out.push(':');
                    write(x, path, target, after, out);
                    if here && after {
                        out.push(',');
                        out.push_str(&twin_text);
                    }
                    path.pop();
                }
                out.push('}');
            }
            Value::Array(a) => {
                out.push('[');
                for (i, x) in a.iter().enumerate() {
                    if i > 0 {
                        out.push(',');
                    }
                    path.push(format!("#{i}"));
                    write(x, path, target, after, out);
                    path.pop();
                }
                out.push(']');
            }
            other => out.push_str(&other.to_string()),
        }
    }
    let mut out = vec![];
    for target in &chosen {
        for after in [true, false] {
            let mut t = String::new();
            write(&v, &mut vec![], target, after, &mut t);
            out.push(t);
        }
    }
    out
}

fn channels_x<T: DeserializeOwned + PartialEq + Debug>(text: &str, extra: ExtraChannel<T>) -> (bool, Option<String>, Option<T>) {
    let base: Result<Result<T, String>, String> = parse_via(text, "str");
    let base_ok = matches!(&base, Ok(Ok(_)));
    let mut detail: Option<String> = None;
    let mut agree = true;
    for sp in SPELLINGS {
        let t = respell(text, sp);
        let damaged = matches!(sp, "trailing_garbage" | "concatenated" | "truncated") || sp.starts_with("pad_");
        // what the reference channel (str) says about THIS text
        let reference: Result<Result<T, String>, String> = if damaged { parse_via(&t, "str") } else { parse_via(text, "str") };
        for ch in CHANNELS {
            let r: Result<Result<T, String>, String> = parse_via(&t, ch);
            let same = match (&reference, &r) {
                (Ok(Ok(a)), Ok(Ok(b))) => a == b,
                (Ok(Err(_)), Ok(Err(_))) => true,
                _ => false,
            };
            if !same && agree {
                agree = false;
                detail = Some(format!("channel {ch} spelling {sp}: base accepted={base_ok}, this={}",
                    match &r { Ok(Ok(_)) => "accepted".to_string(), Ok(Err(e)) => format!("rejected: {e}"), Err(p) => format!("panic: {p}") }));
            }
        }
    }
    // the extra channel of this document type, on every spelling
    if let Some((name, f)) = extra {
        for sp in SPELLINGS {
            let t = respell(text, sp);
            let reference: Result<Result<T, String>, String> = parse_via(&t, "str");
            let r = f(&t);
            let same = match (&reference, &r) {
                (Ok(Ok(a)), Ok(Ok(b))) => a == b,
                (Ok(Err(_)), Ok(Err(_))) => true,
                _ => false,
            };
            if !same && agree {
                agree = false;
                detail = Some(format!("channel {name} spelling {sp} differs from str"));
            }
        }
    }
    // repeated members: the text channels (and the extra one) must agree with str
    if agree {
        for t in duplicate_member_texts(text) {
            let reference: Result<Result<T, String>, String> = parse_via(&t, "str");
            let mut results: Vec<(String, Result<Result<T, String>, String>)> = vec![];
            for ch in ["slice", "reader", "json_slice", "json_reader", "jsonpretty_reader"] {
                results.push((ch.to_string(), parse_via(&t, ch)));
            }
            if let Some((name, f)) = extra {
                results.push((name.to_string(), f(&t)));
            }
            for (ch, r) in results {
                let same = match (&reference, &r) {
                    (Ok(Ok(a)), Ok(Ok(b))) => a == b,
                    (Ok(Err(_)), Ok(Err(_))) => true,
                    _ => false,
                };
                if !same && agree {
                    agree = false;
                    detail = Some(format!("repeated member, channel {ch}: str {} / this {} / text {}",
                        if matches!(reference, Ok(Ok(_))) { "accepted" } else { "rejected" },
                        if matches!(r, Ok(Ok(_))) { "accepted" } else { "rejected" }, t.chars().take(200).collect::<String>()));
                }
            }
        }
    }
    // members with a sibling that differs in letter case only: every channel, the tree ones included
    if agree {
        for t in case_variant_member_texts(text) {
            let reference: Result<Result<T, String>, String> = parse_via(&t, "str");
            for ch in CHANNELS {
                let r: Result<Result<T, String>, String> = parse_via(&t, ch);
                let same = match (&reference, &r) {
                    (Ok(Ok(a)), Ok(Ok(b))) => a == b,
                    (Ok(Err(_)), Ok(Err(_))) => true,
                    _ => false,
                };
                if !same && agree {
                    agree = false;
                    detail = Some(format!("member with a sibling differing in letter case, channel {ch}: str {} / this {} / text {}",
                        if matches!(reference, Ok(Ok(_))) { "accepted" } else { "rejected" },
                        if matches!(r, Ok(Ok(_))) { "accepted" } else { "rejected" }, t.chars().take(200).collect::<String>()));
                }
            }
        }
    }
    // content damages (Wire.tla DamageKinds): one leaf of the document altered so that a validating field may
    // become invalid - whatever the verdict, it must not depend on the channel
    if agree {
        if let Ok(v) = serde_json::from_str::<Value>(text) {
            for dmg in content_damages(&v) {
                let t = dmg.to_string();
                let reference: Result<Result<T, String>, String> = parse_via(&t, "str");
                for ch in CHANNELS {
                    let r: Result<Result<T, String>, String> = parse_via(&t, ch);
                    let same = match (&reference, &r) {
                        (Ok(Ok(a)), Ok(Ok(b))) => a == b,
                        (Ok(Err(_)), Ok(Err(_))) => true,
                        _ => false,
                    };
                    if !same && agree {
                        agree = false;
                        let show = |r: &Result<Result<T, String>, String>| match r {
                            Ok(Ok(_)) => "accepted".to_string(),
                            Ok(Err(e)) => format!("rejected: {e}"),
                            Err(p) => format!("panic: {p}"),
                        };
                        detail = Some(format!("damaged content, channel {ch}: str {} / this {} / text {}", show(&reference), show(&r), t.chars().take(300).collect::<String>()));
                    }
                }
            }
        }
    }
    (agree, detail, base.ok().and_then(|r| r.ok()))
}

/// every single-leaf damage of a document (bounded): strings shorter / longer / empty, numbers negative / huge,
/// object members removed
pub fn content_damages(v: &Value) -> Vec<Value> {
    fn leaves(v: &Value, at: String, out: &mut Vec<(String, bool)>) {
        match v {
            Value::Object(o) => {
                for (k, x) in o {
                    let p = format!("{at}/{}", k.replace('~', "~0").replace('/', "~1"));
                    out.push((p.clone(), true));
                    leaves(x, p, out);
                }
            }
            Value::Array(a) => {
                for (i, x) in a.iter().enumerate() {
                    out.push((format!("{at}/{i}"), false));
                    leaves(x, format!("{at}/{i}"), out);
                }
            }
            _ => {}
        }
    }
    let mut ps = vec![(String::new(), true)];
    leaves(v, String::new(), &mut ps);
    let max_leaves = std::env::var("ITV_DAMAGE_LEAVES").ok().and_then(|s| s.parse().ok()).unwrap_or(0usize);
    if max_leaves == 0 {
        return vec![];
    }
    // spread the budget over the whole document
    let step = (ps.len() / max_leaves).max(1);
    let mut out = vec![];
    for (p, _) in ps.iter().step_by(step) {
        let cur = v.pointer(p).unwrap().clone();
        let mut alts: Vec<Option<Value>> = vec![None]; // None = member removed
        match &cur {
            Value::String(s) => {
                let mut shorter = s.clone();
                shorter.pop();
                alts.push(Some(json!(shorter)));
                alts.push(Some(json!(format!("{s}0"))));
                alts.push(Some(json!("")));
            }
            Value::Number(_) => {
                alts.push(Some(json!(-1)));
                alts.push(Some(json!(4294967296u64)));
                alts.push(Some(json!(1.5)));
            }
            // an object gains a member no schema knows, holding a value of a kind the document never uses
            Value::Object(o) => {
                for extra in [json!(1.25), json!(5e-1), json!(null), json!({"n": [1e30]})] {
                    let mut o2 = o.clone();
                    o2.insert("zz-unknown".to_string(), extra);
                    alts.push(Some(Value::Object(o2)));
                }
            }
            _ => {}
        }
        for a in alts {
            let mut m = v.clone();
            match a {
                Some(x) => {
                    if x == cur {
                        continue;
                    }
                    *m.pointer_mut(p).unwrap() = x;
                }
                None => {
                    if p.is_empty() {
                        continue;
                    }
                    let (parent, key) = p.rsplit_once('/').unwrap();
                    let key = key.replace("~1", "/").replace("~0", "~");
                    match m.pointer_mut(parent) {
                        Some(Value::Object(o)) => {
                            o.remove(&key);
                        }
                        Some(Value::Array(a)) => {
                            a.remove(key.parse::<usize>().unwrap());
                        }
                        _ => continue,
                    }
                }
            }
            out.push(m);
        }
    }
    out
}

/// C16 over one value: parse(serialize(v)) == v and serialize(parse(serialize(v))) == serialize(v), compact and pretty
fn round_trip<T: Serialize + DeserializeOwned + PartialEq + Debug>(v: &T) -> (bool, bool, Option<String>) {
    let mut value_ok = true;
    let mut text_ok = true;
    let mut detail = None;
    for pretty in [false, true] {
        let text = if pretty { serde_json::to_string_pretty(v).unwrap() } else { serde_json::to_string(v).unwrap() };
        match parse_via::<T>(&text, "str") {
            Ok(Ok(back)) => {
                if back != *v {
                    value_ok = false;
                    detail.get_or_insert(format!("value changed (pretty={pretty})"));
                }
                let text2 = if pretty { serde_json::to_string_pretty(&back).unwrap() } else { serde_json::to_string(&back).unwrap() };
                if text2 != text {
                    text_ok = false;
                    detail.get_or_insert(format!("re-serialisation differs (pretty={pretty})"));
                }
            }
            Ok(Err(e)) => {
                value_ok = false;
                detail.get_or_insert(format!("own serialisation rejected: {e}"));
            }
            Err(p) => {
                value_ok = false;
                detail.get_or_insert(format!("panic: {p}"));
            }
        }
    }
    // ... and through the library's own interchange formats (compact canonical JSON and its pretty variant)
    for (name, pretty) in [("Json", false), ("JsonPretty", true)] {
        use in_toto::interchange::{DataInterchange, Json, JsonPretty};
        let val = serde_json::to_value(v).unwrap();
        let bytes = guarded(|| if pretty { JsonPretty::canonicalize(&val) } else { Json::canonicalize(&val) });
        match bytes {
            Ok(Ok(b)) => {
                let back: Result<Result<T, String>, String> =
                    guarded(|| if pretty { JsonPretty::from_slice::<T>(&b) } else { Json::from_slice::<T>(&b) }.map_err(|e| e.to_string()));
                match back {
                    Ok(Ok(x)) => {
                        if x != *v {
                            value_ok = false;
                            detail.get_or_insert(format!("value changed through {name}"));
                        }
                    }
                    Ok(Err(e)) => {
                        value_ok = false;
                        detail.get_or_insert(format!("own {name} output rejected: {e}"));
                    }
                    Err(p) => {
                        value_ok = false;
                        detail.get_or_insert(format!("panic: {p}"));
                    }
                }
            }
            Ok(Err(e)) => {
                value_ok = false;
                detail.get_or_insert(format!("{name} refuses the value: {e}"));
            }
            Err(p) => {
                value_ok = false;
                detail.get_or_insert(format!("panic: {p}"));
            }
        }
    }
    (value_ok, text_ok, detail)
}

/// The library's own writers (Json / JsonPretty `to_writer`) on a typed value: writing the same value again, and
/// writing what was read back, reproduces the bytes; the bytes are the interchange's canonical form of the value.
fn writer_stable<T: Serialize + DeserializeOwned + PartialEq + Debug>(v: &T) -> Option<String> {
    use in_toto::interchange::{DataInterchange, Json, JsonPretty};
    for pretty in [false, true] {
        let name = if pretty { "JsonPretty" } else { "Json" };
        let write = |x: &T| -> Result<Vec<u8>, String> {
            let mut buf = vec![];
            let r = if pretty { JsonPretty::to_writer(&mut buf, x) } else { Json::to_writer(&mut buf, x) };
            r.map_err(|e| e.to_string())?;
            Ok(buf)
        };
        let first = match guarded(|| write(v)) {
            Ok(Ok(b)) => b,
            Ok(Err(e)) => return Some(format!("{name}::to_writer refuses the value: {e}")),
            Err(p) => return Some(format!("panic: {p}")),
        };
        let canon = serde_json::to_value(v).ok().and_then(|val| if pretty { JsonPretty::canonicalize(&val).ok() } else { Json::canonicalize(&val).ok() });
        // (the pretty writer lays the document out for reading; only the compact one is held to the canonical bytes)
        if !pretty && canon.as_deref() != Some(&first[..]) {
            return Some(format!("{name}::to_writer does not write the canonical form"));
        }
        for round in 0..3 {
            match guarded(|| write(v)) {
                Ok(Ok(b)) if b == first => {}
                _ => return Some(format!("{name}::to_writer writes the same value differently (round {round})")),
            }
            let back = guarded(|| if pretty { JsonPretty::from_slice::<T>(&first) } else { Json::from_slice::<T>(&first) }.map_err(|e| e.to_string()));
            match back {
                Ok(Ok(x)) => {
                    if x != *v {
                        return Some(format!("value changed through {name}::to_writer"));
                    }
                    match guarded(|| write(&x)) {
                        Ok(Ok(b)) if b == first => {}
                        _ => return Some(format!("{name}: what was read back is written differently")),
                    }
                }
                _ => return Some(format!("{name}::to_writer output rejected by {name}::from_slice")),
            }
        }
    }
    None
}

// ---------------------------------------------------------------- rules
fn rule_fields(r: &ArtifactRule) -> Value {
    match r {
        ArtifactRule::Match { pattern, in_src, with, in_dst, from } => json!({
            "k": "MATCH", "pat": pattern.value(), "src": in_src.clone().unwrap_or_default(), "hasSrc": in_src.is_some(),
            "dst": in_dst.clone().unwrap_or_default(), "hasDst": in_dst.is_some(),
            "with": match with { Artifact::Materials => "MATERIALS", Artifact::Products => "PRODUCTS" }, "from": from}),
        other => {
            let k = match other {
                ArtifactRule::Create(_) => "CREATE",
                ArtifactRule::Delete(_) => "DELETE",
                ArtifactRule::Modify(_) => "MODIFY",
                ArtifactRule::Allow(_) => "ALLOW",
                ArtifactRule::Require(_) => "REQUIRE",
                _ => "DISALLOW",
            };
            json!({"k": k, "pat": other.pattern().value(), "src": "", "hasSrc": false, "dst": "", "hasDst": false, "with": "", "from": ""})
        }
    }
}

pub fn run_rule(scn: &Value) -> Value {
    let toks = &scn["toks"];
    let text = toks.to_string();
    let (agree, detail, parsed) = channels::<ArtifactRule>(&text);
    let mut res = json!({"out": if parsed.is_some() { "ok" } else { "err" }, "channels_agree": agree, "detail": detail});
    if let Some(r) = parsed {
        let mut want = scn["rule"].clone();
        if let Some(o) = want.as_object_mut() {
            o.remove("ok");
        }
        res["value_ok"] = json!(scn["out"] != "ok" || rule_fields(&r) == want);
        res["rt_ok"] = json!(serde_json::to_value(&r).unwrap() == *toks);
        res["got"] = rule_fields(&r);
    }
    res
}

// ---------------------------------------------------------------- documents
fn rules_for(kind: &str, s: &str) -> (Vec<ArtifactRule>, Vec<ArtifactRule>) {
    let m = |src: bool, dst: bool| ArtifactRule::Match {
        pattern: format!("p{s}*").as_str().into(),
        in_src: if src { Some(format!("in{s}")) } else { None },
        with: if dst { Artifact::Products } else { Artifact::Materials },
        in_dst: if dst { Some("out".to_string()) } else { None },
        from: format!("s{s}"),
    };
    match kind {
        "none" => (vec![], vec![]),
        "simple" => (vec![ArtifactRule::Allow("*".into()), ArtifactRule::Require(format!("r{s}").as_str().into())],
                     vec![ArtifactRule::Create("a".into()), ArtifactRule::Delete("b".into()), ArtifactRule::Modify("c".into()), ArtifactRule::Disallow("*".into())]),
        "match_full" => (vec![m(true, true)], vec![]),
        "match_nosrc" => (vec![], vec![m(false, true)]),
        "match_nodst" => (vec![m(true, false)], vec![]),
        "match_bare" => (vec![m(false, false)], vec![m(false, false)]),
        // operands that a normaliser would be tempted to tidy up
        "match_slash" => (
            vec![ArtifactRule::Match { pattern: "./p/".into(), in_src: Some(format!("in{s}/")), with: Artifact::Materials, in_dst: Some("out//".to_string()), from: " s ".to_string() }],
            vec![ArtifactRule::Match { pattern: "P".into(), in_src: Some("/".to_string()), with: Artifact::Products, in_dst: Some(String::new()), from: "S/".to_string() },
                 ArtifactRule::Create(" a ".into()), ArtifactRule::Disallow("a/".into())],
        ),
        _ => (vec![m(true, true), ArtifactRule::Allow("*".into()), m(false, false)], vec![m(true, false), ArtifactRule::Disallow("IN".into()), m(false, true)]),
    }
}

pub fn build_link(d: &Value, rng: &mut impl rand::Rng) -> MetadataWrapper {
    let s = instantiate(&d["str"], rng);
    let mut b = LinkMetadataBuilder::new().name(format!("n{s}"));
    if d["mats"].as_u64().unwrap() > 0 {
        let mut m = artifacts(&json!([{"p": "src/a", "d": "h1"}]));
        m.insert(VirtualTargetPath::new(format!("m/{s}")).unwrap(), target("h2"));
        b = b.materials(m);
    }
    if d["prods"].as_u64().unwrap() > 0 {
        b = b.products(artifacts(&json!([{"p": "out", "d": "h3"}])));
    }
    b = b.env(match d["env"].as_str().unwrap() {
        "none" => None,
        "empty" => Some(BTreeMap::new()),
        "one" => Some(BTreeMap::from([(format!("K{s}"), s.clone())])),
        _ => Some(BTreeMap::from([("A".to_string(), "1".to_string()), (format!("B{s}"), String::new())])),
    });
    b = b.command(if d["cmd"] == "empty" { Command::default() } else { Command::from(vec!["sh".to_string(), "-c".to_string(), format!("x{s} y")]) });
    let mut byp = ByProducts::new();
    match d["retval"].as_str().unwrap() {
        "zero" => byp = byp.set_return_value(0),
        "neg" => byp = byp.set_return_value(-1),
        "max" => byp = byp.set_return_value(i32::MAX),
        _ => {}
    }
    if d["stdout"] == "present" {
        byp = byp.set_stdout(format!("o{s}\n")).set_stderr(s.clone());
    }
    for i in 0..d["extras"].as_u64().unwrap() {
        byp = byp.set_other_field(format!("extra{i}{s}"), format!("v{s}"));
    }
    if let Some(r) = d["reserved"].as_str() {
        if r != "none" {
            // through the single-entry setter or, every other time, through the bulk setter
            if rng.gen_bool(0.5) {
                byp = byp.set_other_field(r.to_string(), "7".to_string());
            } else {
                let mut m = BTreeMap::new();
                m.insert(r.to_string(), "7".to_string());
                m.insert("another".to_string(), "x".to_string());
                byp = byp.set_other_fields(m);
            }
        }
    }
    MetadataWrapper::Link(b.byproducts(byp).build().unwrap())
}

pub fn build_layout(d: &Value, km: &KeyMap, rng: &mut impl rand::Rng) -> MetadataWrapper {
    let s = instantiate(&d["str"], rng);
    let exp = match d["expires"].as_str().unwrap() {
        "epoch" => chrono::DateTime::UNIX_EPOCH,
        "now" => crate::verify::t0(),
        // a day whose ISO week-based year differs from its calendar year
        "yearend" => chrono::TimeZone::with_ymd_and_hms(&chrono::Utc, 2024, 12, 30, 23, 59, 59).unwrap(),
        _ => crate::verify::t0() + chrono::Duration::days(365 * 200),
    };
    let mut b = LayoutMetadataBuilder::new().expires(exp).readme(s.clone()); // the empty class gives an empty readme
    let knames: Vec<&str> = match d["keys"].as_str().unwrap() {
        "none" => vec![],
        "ed" => vec!["ed"],
        "rsa" => vec!["rsa"],
        "ec" => vec!["ec"],
        _ => vec!["ed", "rsa", "ec", "ed2"],
    };
    for k in &knames {
        b = b.add_key(km.pk(k).clone());
    }
    if d["keys"] == "all" {
        // ... and keys in every construction form of the public API (hash-algorithm list absent / custom / empty)
        for k in crate::lifecycle::listed_key_forms() {
            b = b.add_key(k);
        }
    }
    let thr = match d["thr"].as_str().unwrap() {
        "zero" => 0,
        "one" => 1,
        _ => u32::MAX,
    };
    let (em, ep) = rules_for(d["rules"].as_str().unwrap(), &s);
    for i in 0..d["steps"].as_u64().unwrap() {
        let mut st = Step::new(&format!("s{i}{s}")).threshold(thr).expected_materials(em.clone()).expected_products(ep.clone());
        if i == 0 {
            st = st.expected_command(Command::from(vec!["cc".to_string(), s.clone()]));
        }
        for k in &knames {
            st = st.add_key(km.id(k));
        }
        // an identifier is 64 characters of text: one spelt with upper-case letters is a value like any other
        if i == 0 {
            use std::str::FromStr;
            st = st.add_key(in_toto::crypto::KeyId::from_str(&"70CA5750C2EAF39FD2BC9AE5B6BCB7E7AB8F1BBD1C5C1B0FBB5B9EBA1F0BABCD".to_string()).unwrap());
        }
        b = b.add_step(st);
    }
    for i in 0..d["insp"].as_u64().unwrap() {
        b = b.add_inspect(Inspection::new(&format!("i{i}{s}")).run(Command::from(vec!["true".to_string(), s.clone()])).expected_materials(em.clone()).expected_products(ep.clone()));
    }
    MetadataWrapper::Layout(b.build().unwrap())
}

/// give every command-like array arguments that a tokeniser would split or drop
fn craft_commands(v: &mut Value) {
    match v {
        Value::Object(o) => {
            for (k, x) in o.iter_mut() {
                if matches!(k.as_str(), "command" | "expected_command" | "run") && x.is_array() {
                    *x = json!(["sh", "-c", "echo hello  world", "", " ", "\ttab"]);
                } else if matches!(k.as_str(), "name" | "readme" | "stdout" | "stderr") && x.is_string() {
                    // free-text members keep leading / trailing / inner white space and case
                    let t = x.as_str().unwrap().to_string();
                    *x = json!(format!("  {t} X\t"));
                } else if matches!(k.as_str(), "materials" | "products" | "environment") && x.is_object() {
                    let o = x.as_object().unwrap().clone();
                    let mut n = serde_json::Map::new();
                    for (kk, vv) in o {
                        let vv = if vv.is_string() { json!(format!(" {} ", vv.as_str().unwrap())) } else { vv };
                        n.insert(format!(" {kk} /"), vv);
                    }
                    *x = Value::Object(n);
                } else {
                    craft_commands(x);
                }
            }
        }
        Value::Array(a) => a.iter_mut().for_each(craft_commands),
        _ => {}
    }
}

pub struct Ctx {
    km: KeyMap,
    rng: rand::rngs::StdRng,
}

impl Ctx {
    pub fn new() -> Ctx {
        // mixed key types in one table
        let mut km = KeyMap::new("ed25519", &["ed", "ed2", "signer1", "signer2"]);
        km.add("rsa", load("rsa2048-256", 0));
        km.add("ec", load("ecdsa", 0));
        Ctx { km, rng: rng(16) }
    }

    pub fn run_doc(&mut self, scn: &Value) -> Value {
        let d = &scn["desc"];
        let meta = if scn["kind"] == "link" { build_link(d, &mut self.rng) } else { build_layout(d, &self.km, &mut self.rng) };
        let signer_names: Vec<&str> = match (d["sigs"].as_u64(), d["sigs"].as_str()) {
            (Some(n), _) => ["signer1", "signer2"].iter().take(n as usize).copied().collect(),
            (_, Some("none")) => vec![],
            (_, Some("one")) => vec!["signer1"],
            (_, Some("two")) => vec!["signer1", "signer2"],
            (_, Some("dup")) => vec!["signer1", "signer1"],
            (_, Some("aba")) => vec!["signer1", "signer2", "signer1"],
            (_, Some("dupdup")) => vec!["signer1", "signer1", "signer2", "signer2"],
            other => panic!("sigs descriptor {other:?}"),
        };
        let sks: Vec<&in_toto::crypto::PrivateKey> = signer_names.iter().map(|n| self.km.sk(n)).collect();
        let block = Metablock::new(meta.clone(), &sks).unwrap();
        // C16 on the signed block, on the wrapper, and on the inner metadata type
        let (v1, t1, d1) = round_trip(&block);
        let (v2, t2, d2) = round_trip(&meta);
        let (v3, t3, d3) = match &meta {
            MetadataWrapper::Link(l) => round_trip(l),
            MetadataWrapper::Layout(l) => round_trip(l),
        };
        // C17 on block and wrapper
        let (a1, c1, _) = channels::<Metablock>(&serde_json::to_string(&block).unwrap());
        let tfb = |t: &str| guarded(|| MetadataWrapper::try_from_bytes(t.as_bytes()).map_err(|e| e.to_string()));
        let (a2, c2, _) = channels_x::<MetadataWrapper>(&serde_json::to_string(&meta).unwrap(), Some(("try_from_bytes", &tfb)));
        let (a3, c3) = match &meta {
            MetadataWrapper::Link(l) => {
                let (a, c, _) = channels::<in_toto::models::LinkMetadata>(&serde_json::to_string(l).unwrap());
                (a, c)
            }
            MetadataWrapper::Layout(l) => {
                let (a, c, _) = channels::<in_toto::models::LayoutMetadata>(&serde_json::to_string(l).unwrap());
                (a, c)
            }
        };
        // parsing never silently alters a field it accepts: start from TEXT whose command arguments
        // (and other strings) contain white space / are empty, parse, serialise, compare as JSON
        let mut crafted = serde_json::to_value(&meta).unwrap();
        craft_commands(&mut crafted);
        let mut parse_alters = None;
        if let Ok(Ok(back)) = parse_via::<MetadataWrapper>(&crafted.to_string(), "str") {
            let again = serde_json::to_value(&back).unwrap();
            if again != crafted {
                parse_alters = Some("parse altered a field of an accepted document (crafted command arguments)".to_string());
            }
        }
        // ... and the expiry: the same instant written in other RFC 3339 notations (offsets, lower case) must be
        // read as THAT instant (the text is re-written in the canonical notation, the instant may not move)
        if crafted["expires"].is_string() && parse_alters.is_none() {
            let want = chrono::DateTime::parse_from_rfc3339(crafted["expires"].as_str().unwrap()).map(|t| t.with_timezone(&chrono::Utc));
            if let Ok(want) = want {
                for fmt in ["+00:00", "+02:00", "-07:30", "+14:00", "+05:45", "lower"] {
                    let mut c2 = crafted.clone();
                    c2["expires"] = json!(crate::verify::spell_instant(want, fmt));
                    if let Ok(Ok(back)) = parse_via::<MetadataWrapper>(&c2.to_string(), "str") {
                        let again = serde_json::to_value(&back).unwrap();
                        let got = again["expires"].as_str().and_then(|t| chrono::DateTime::parse_from_rfc3339(t).ok()).map(|t| t.with_timezone(&chrono::Utc));
                        if got != Some(want) {
                            parse_alters = Some(format!("expiry written as {} was read as {:?}", c2["expires"], again["expires"]));
                        }
                    }
                }
            }
        }
        // the library's writers on block and wrapper - and on a variant of the link whose artifacts carry two digests
        // each (digest maps are unordered containers: the WRITTEN form may not depend on their iteration order)
        let mut writers = writer_stable(&block).or_else(|| writer_stable(&meta));
        if let (None, MetadataWrapper::Link(l)) = (&writers, &meta) {
            let mut l2 = l.clone();
            for (n, sym) in ["both:h4", "both:h5", "both:h6", "both:h7", "both:h8"].iter().enumerate() {
                l2.products.insert(VirtualTargetPath::new(format!("two/{n}")).unwrap(), target(sym));
            }
            let m2 = MetadataWrapper::Link(l2);
            writers = writer_stable(&m2).or_else(|| writer_stable(&Metablock::new(m2.clone(), &sks).unwrap()));
        }
        // the auto-detecting byte parser must agree with the typed one
        let bytes = serde_json::to_vec(&meta).unwrap();
        let auto = guarded(|| MetadataWrapper::try_from_bytes(&bytes));
        let auto_ok = matches!(&auto, Ok(Ok(m)) if *m == meta);
        json!({"out": "ok", "value_ok": v1 && v2 && v3 && auto_ok && parse_alters.is_none(), "text_ok": t1 && t2 && t3 && writers.is_none(),
               "channels_agree": a1 && a2 && a3,
               "detail": parse_alters.or(writers).or(d1).or(d2).or(d3).or(c1).or(c2).or(c3).or(if auto_ok { None } else { Some("try_from_bytes differs".to_string()) })})
    }
}

// ---------------------------------------------------------------- attestations
fn ts_text(form: &str) -> Value {
    match form {
        "Z" => json!("2023-04-05T06:07:08Z"),
        "offset" => json!("2023-04-05T06:07:08+02:00"),
        "frac" => json!("2023-04-05T06:07:08.5Z"),
        _ => Value::Null,
    }
}

pub fn pred_doc(fields: &[String], mat: &str, ts: &str) -> Value {
    pred_doc_nest(fields, mat, ts, "full")
}

pub fn pred_doc_nest(fields: &[String], mat: &str, ts: &str, nest: &str) -> Value {
    let mut o = serde_json::Map::new();
    for f in fields {
        let v = match f.as_str() {
            "name" => json!("step"),
            "materials" if nest != "full" && mat == "list" => {
                if nest == "empty" {
                    json!([{}, {"digest": {}}])
                } else {
                    json!([])
                }
            }
            "materials" => {
                if mat == "map" {
                    json!({"src/a": {"sha256": "11".repeat(32)}})
                } else {
                    json!([{"uri": "git+https://example.com/r", "digest": {"sha1": "aBc0D9", "sha256": "ABCDEF"}}, {}])
                }
            }
            // (strings with the characters encoders treat specially: control characters, quote, backslash, DEL,
            // non-ASCII, beyond the basic plane)
            "env" => json!({"A": "b", "L\n\u{e9}": "v\n\t\u{1}\"\\\u{7f}\u{e9}\u{1f600}"}),
            "command" => json!(["cc", "-c", "a\tb", "q\"\\"]),
            "byproducts" => json!({"return-value": 0, "stdout": "o\nline two\r\n\u{1b}[0m", "stderr": "", "extra": "x\n"}),
            "builder" => json!({"id": "https://example.com/builder"}),
            "recipe" if nest != "full" => json!({"type": "https://example.com/recipe"}),
            "metadata" if nest == "empty" => json!({"completeness": {}}),
            "metadata" if nest == "min" => json!({}),
            "invocation" if nest == "empty" => json!({"configSource": {"uri": null}}),
            "invocation" if nest == "min" => json!({}),
            "recipe" => json!({"type": "https://example.com/recipe", "definedInMaterial": 0, "entryPoint": "build"}),
            "metadata" => {
                let mut m = json!({"buildInvocationId": "id-1", "completeness": {"arguments": true, "materials": false}, "reproducible": false});
                if ts != "none" {
                    m["buildStartedOn"] = ts_text(ts);
                    m["buildFinishedOn"] = ts_text("Z");
                }
                m
            }
            "buildType" => json!("https://example.com/type"),
            "invocation" => json!({"configSource": {"uri": "git+https://example.com/r", "digest": {"sha1": "Ab0dEF"}, "entryPoint": "b"}, "parameters": "p"}),
            "buildConfig" => json!("cfg"),
            _ => json!(null),
        };
        o.insert(f.clone(), v);
    }
    Value::Object(o)
}

fn pred_version_name(v: &in_toto::models::PredicateVer) -> &'static str {
    match String::from(*v).as_str() {
        "https://in-toto.io/Link/v0.2" => "link02",
        "https://slsa.dev/provenance/v0.1" => "slsa01",
        _ => "slsa02",
    }
}

static NEAR: std::sync::atomic::AtomicUsize = std::sync::atomic::AtomicUsize::new(0);

fn type_string(v: &str) -> String {
    let known = |v: &str| match v {
        "link02" => Some("https://in-toto.io/Link/v0.2"),
        "slsa01" => Some("https://slsa.dev/provenance/v0.1"),
        "slsa02" => Some("https://slsa.dev/provenance/v0.2"),
        _ => None,
    };
    if let Some(k) = known(v) {
        return k.to_string();
    }
    // nearly a known type string
    if v.len() > 1 {
        if let Some(k) = known(&v[..v.len() - 1]) {
            let n = NEAR.fetch_add(1, std::sync::atomic::Ordering::Relaxed);
            return match &v[v.len() - 1..] {
                "+" => format!("{k}{}", ["0", "-draft", "/", " ", ".0", "#frag"][n % 6]),
                "-" => k[..k.len() - 1 - (n % 2)].to_string(),
                _ => {
                    if n % 2 == 0 {
                        k.to_uppercase()
                    } else {
                        k.replace("https://", "HTTPS://")
                    }
                }
            };
        }
    }
    "https://example.com/unknown".to_string()
}

pub fn run_pred(scn: &Value) -> Value {
    let d = &scn["desc"];
    let fields: Vec<String> = d["fields"].as_array().unwrap().iter().map(|f| f.as_str().unwrap().to_string()).collect();
    let doc = pred_doc_nest(&fields, d["mat"].as_str().unwrap(), d["ts"].as_str().unwrap(), d["nest"].as_str().unwrap_or("full"));
    let text = doc.to_string();
    let (agree, detail, parsed) = channels::<PredicateWrapper>(&text);
    let mut res = json!({"out": if parsed.is_some() { "ok" } else { "err" }, "channels_agree": agree, "detail": detail});
    let judged = guarded(|| PredicateWrapper::judge_from_value(&doc));
    if let Some(p) = parsed {
        let tr = p.clone().into_trait();
        let ver = pred_version_name(&tr.version());
        res["version"] = json!(ver);
        res["judge_ok"] = json!(matches!(&judged, Ok(Ok(v)) if pred_version_name(v) == ver));
        // canonical form parses back to an equal value
        let canon = tr.to_bytes().ok();
        let back = canon.as_ref().and_then(|b| serde_json::from_slice::<PredicateWrapper>(b).ok());
        // the canonical form parses back to an equal value and is reproduced from it byte for byte
        let canon2 = back.clone().and_then(|b| b.into_trait().to_bytes().ok());
        res["rt_ok"] = json!(back.as_ref() == Some(&p) && canon.is_some() && canon == canon2);
        // (the plain serde text of a predicate holds unordered maps: only the VALUE has to survive it)
        let (v, _t, dd) = round_trip(&p);
        res["rt2_ok"] = json!(v);
        if let Some(x) = dd {
            res["detail"] = json!(x);
        }
    } else {
        res["judge_ok"] = json!(!matches!(&judged, Ok(Ok(_))));
    }
    // the three predicate formats themselves (their types are reached through the wrapper's variant
    // constructors): channels and round trip of the typed parsers
    let mut typed_agree = true;
    let mut typed_rt = true;
    let mut typed_detail: Option<String> = None;
    let mut typed_accepts = vec![];
    let mut note = |name: &str, r: (bool, Option<String>, bool, Option<String>, bool)| {
        let (agree, d1, rt, d2, accepted) = r;
        if accepted {
            typed_accepts.push(name.to_string());
        }
        if !agree {
            typed_agree = false;
            typed_detail.get_or_insert(format!("{name}: {}", d1.unwrap_or_default()));
        }
        if !rt {
            typed_rt = false;
            typed_detail.get_or_insert(format!("{name}: {}", d2.unwrap_or_default()));
        }
    };
    note("link02", typed_pred(PredicateWrapper::LinkV0_2, &text));
    note("slsa01", typed_pred(PredicateWrapper::SLSAProvenanceV0_1, &text));
    note("slsa02", typed_pred(PredicateWrapper::SLSAProvenanceV0_2, &text));
    res["typed_agree"] = json!(typed_agree);
    res["typed_rt"] = json!(typed_rt);
    res["typed_detail"] = json!(typed_detail);
    res["typed_accepts"] = json!(typed_accepts);
    res
}

/// channels and round trip of one predicate format, the type being inferred from the wrapper's constructor
fn typed_pred<T: DeserializeOwned + Serialize + PartialEq + Debug>(_ctor: fn(T) -> PredicateWrapper, text: &str) -> (bool, Option<String>, bool, Option<String>, bool) {
    let (agree, detail, parsed) = channels::<T>(text);
    match parsed {
        Some(p) => {
            let (v, _t, d) = round_trip(&p);
            (agree, detail, v, if v { None } else { d }, true)
        }
        None => (agree, detail, true, None, false),
    }
}

fn minimal_pred(v: &str) -> Value {
    match v {
        "link02" => pred_doc(&["name".into(), "materials".into(), "env".into(), "command".into(), "byproducts".into()], "map", "none"),
        "slsa01" => pred_doc(&["builder".into(), "recipe".into(), "materials".into()], "list", "none"),
        _ => pred_doc(&["builder".into(), "buildType".into(), "invocation".into()], "list", "none"),
    }
}

pub fn run_stmt(scn: &Value) -> Value {
    let d = &scn["desc"];
    let mut o = serde_json::Map::new();
    for f in d["fields"].as_array().unwrap() {
        let f = f.as_str().unwrap();
        let v = match f {
            "_type" => {
                let v01 = d["fields"].as_array().unwrap().iter().any(|x| x == "predicate");
                // "stype": the statement's own type string is the OTHER format's / an unknown one / empty
                match d["stype"].as_str().unwrap_or("own") {
                    "crossed" => json!(if v01 { "link" } else { "https://in-toto.io/Statement/v0.1" }),
                    "unknown" => json!("https://in-toto.io/Statement/v9"),
                    "empty" => json!(""),
                    _ => json!(if v01 { "https://in-toto.io/Statement/v0.1" } else { "link" }),
                }
            }
            "name" => json!("step"),
            "materials" => json!({"src/a": {"sha256": "11".repeat(32)}}),
            "products" => json!({"out": {"sha256": "22".repeat(32)}}),
            "env" => json!({"A": "b"}),
            "command" => json!(["cc"]),
            "byproducts" => json!({"return-value": 0, "stdout": "", "stderr": ""}),
            "subject" => json!({"out": {"sha256": "22".repeat(32)}}),
            "predicateType" => json!(type_string(d["declared"].as_str().unwrap())),
            "predicate" => minimal_pred(d["contained"].as_str().unwrap()),
            _ => Value::Null,
        };
        o.insert(f.to_string(), v);
    }
    let doc = Value::Object(o);
    let text = doc.to_string();
    let (agree, detail, parsed) = channels::<StatementWrapper>(&text);
    let mut res = json!({"out": if parsed.is_some() { "ok" } else { "err" }, "channels_agree": agree, "detail": detail});
    let judged = guarded(|| StatementWrapper::judge_from_value(&doc));
    if let Some(p) = parsed {
        let ver = match &p {
            StatementWrapper::Naive(_) => "naive",
            StatementWrapper::V0_1(_) => "v01",
        };
        res["version"] = json!(ver);
        res["judge_ok"] = json!(matches!(&judged, Ok(Ok(v)) if (matches!(v, StatementVer::Naive) && ver == "naive") || (matches!(v, StatementVer::V0_1) && ver == "v01")));
        let text2 = serde_json::to_string(&p).unwrap();
        // StatementWrapper serialises externally tagged; the inner statement is the wire form
        let inner = serde_json::to_value(&p).unwrap();
        let inner = inner.as_object().and_then(|o| o.values().next().cloned()).unwrap_or(Value::Null);
        let back: Result<StatementWrapper, _> = serde_json::from_value(inner.clone());
        res["rt_ok"] = json!(matches!(&back, Ok(b) if *b == p));
        let bytes_back = match &p {
            StatementWrapper::Naive(_) | StatementWrapper::V0_1(_) => {
                // canonical bytes through the trait object
                let owned: StatementWrapper = serde_json::from_value(inner).unwrap_or_else(|_| serde_json::from_str(&text).unwrap());
                owned.into_trait().to_bytes().ok().and_then(|b| serde_json::from_slice::<StatementWrapper>(&b).ok())
            }
        };
        res["rt2_ok"] = json!(bytes_back.as_ref() == Some(&p));
        let _ = text2;
    } else {
        res["judge_ok"] = json!(!matches!(&judged, Ok(Ok(_))));
    }
    res
}

/// building statements from link metadata carries every field over unchanged
pub fn from_meta_checks(n: usize) -> Value {
    let mut rng = rng(19);
    let mut bad = vec![];
    let classes = ["A", "Q", "B", "N", "E", "U", "S"];
    for i in 0..n {
        let envs = ["none", "empty", "one", "two"];
        let rvs = ["absent", "zero", "neg", "max"];
        let d = json!({"env": envs[i % 4], "extras": i % 3, "mats": (i % 2) * 2, "prods": (i / 2) % 2,
                       "cmd": if i % 3 == 0 { "empty" } else { "args" }, "str": [classes[i % classes.len()]],
                       "retval": rvs[(i / 3) % 4], "stdout": if i % 5 == 0 { "absent" } else { "present" }});
        let meta = match build_link(&d, &mut rng) {
            MetadataWrapper::Link(l) => l,
            _ => unreachable!(),
        };
        let lj = serde_json::to_value(&meta).unwrap();
        // naive statement
        let r = guarded(|| StatementWrapper::from_meta(meta.clone(), None, StatementVer::Naive));
        match r {
            Ok(st) => {
                let sj = serde_json::to_value(&st).unwrap();
                let inner = sj.as_object().and_then(|o| o.values().next().cloned()).unwrap_or(Value::Null);
                for (a, b) in [("name", "name"), ("materials", "materials"), ("products", "products"), ("environment", "env"), ("command", "command"), ("byproducts", "byproducts")] {
                    if lj[a] != inner[b] {
                        bad.push(json!({"kind": "naive", "field": a, "link": lj[a], "statement": inner[b]}));
                    }
                }
            }
            Err(p) => bad.push(json!({"kind": "naive", "panic": p})),
        }
        // v0.1 statement with a Link v0.2 predicate made of the same fields
        let pj = json!({"name": lj["name"], "materials": lj["materials"], "env": lj["environment"], "command": lj["command"], "byproducts": lj["byproducts"]});
        if let Ok(pw) = serde_json::from_value::<PredicateWrapper>(pj.clone()) {
            let r = guarded(|| StatementWrapper::from_meta(meta.clone(), Some(pw.into_trait()), StatementVer::V0_1));
            match r {
                Ok(st) => {
                    let sj = serde_json::to_value(&st).unwrap();
                    let inner = sj.as_object().and_then(|o| o.values().next().cloned()).unwrap_or(Value::Null);
                    if inner["subject"] != lj["products"] || inner["predicate"] != pj || inner["predicateType"] != "https://in-toto.io/Link/v0.2" {
                        bad.push(json!({"kind": "v01", "statement": inner, "link": lj}));
                    }
                }
                Err(p) => bad.push(json!({"kind": "v01", "panic": p})),
            }
        } else {
            bad.push(json!({"kind": "v01", "predicate_rejected": pj}));
        }
    }
    bad.truncate(5);
    json!({"n": n, "bad": bad})
}
