//! Lifecycle.tla scenarios (C09, C05): construct -> write -> read -> edit -> mutate -> verify on real blocks.
use crate::common::*;
use crate::keys::*;
use crate::olpc::instantiate;
use in_toto::crypto::{PublicKey, SignatureScheme};
use in_toto::models::byproducts::ByProducts;
use in_toto::models::inspection::Inspection;
use in_toto::models::rule::{Artifact, ArtifactRule};
use in_toto::models::step::{Command, Step};
use in_toto::models::{
    LayoutMetadataBuilder, LinkMetadataBuilder, Metablock, MetablockBuilder, MetadataWrapper, VirtualTargetPath,
};
use rand::Rng;
use serde_json::{json, Value};
use std::collections::BTreeMap;

pub struct Ctx {
    pub km: KeyMap,
    family: String,
    rng: rand::rngs::StdRng,
}

/// a document that carries `s` in every string-bearing field
pub fn rich_doc(kind: &str, s: &str, km: &KeyMap) -> MetadataWrapper {
    if kind == "link" {
        let mut mats = artifacts(&json!([{"p": "src/a.c", "d": "h1"}, {"p": "src/b.c", "d": "h2"}]));
        mats.insert(VirtualTargetPath::new(format!("m{s}")).unwrap(), target("h3"));
        let mut prods = artifacts(&json!([{"p": "a.out", "d": "h2"}, {"p": "b.out", "d": "h1"}]));
        prods.insert(VirtualTargetPath::new(format!("p{s}")).unwrap(), target("h1"));
        // artifacts recorded with two hash algorithms (zz.* sorts last, so "the first entry" stays single-digest)
        let two = |sym: &str| {
            let mut t = target(sym);
            t.insert(in_toto::crypto::HashAlgorithm::Sha512, in_toto::crypto::HashValue::new(ring::digest::digest(&ring::digest::SHA512, sym.as_bytes()).as_ref().to_vec()));
            t
        };
        mats.insert(VirtualTargetPath::new("zz.two.c".to_string()).unwrap(), two("h4"));
        prods.insert(VirtualTargetPath::new("zz.two.out".to_string()).unwrap(), two("h5"));
        // the return value: zero, negative, extreme - by the length of the content string
        let retval = match s.chars().count() % 4 {
            0 => 0,
            1 => -1,
            2 => i32::MIN,
            _ => i32::MAX,
        };
        MetadataWrapper::Link(
            LinkMetadataBuilder::new()
                .name(format!("step{s}"))
                .materials(mats)
                .products(prods)
                .command(Command::from(vec!["cc".to_string(), format!("-D{s}"), "a.c".to_string()]))
                .byproducts(
                    ByProducts::new()
                        .set_return_value(retval)
                        // (stdout follows stderr in canonical order: structural characters after a string that may
                        // end in a backslash or a quote)
                        .set_stdout(format!("out{s}: a, [b] {{c}}\n"))
                        .set_stderr(s.to_string())
                        .set_other_field("extra".to_string(), format!("x{s}")),
                )
                .env(Some(BTreeMap::from([("A".to_string(), "1".to_string()), (format!("K{s}"), format!("v{s}"))])))
                .build()
                .unwrap(),
        )
    } else {
        let s1 = Step::new(&format!("s1{s}"))
            .threshold(1)
            .add_key(km.id("k1"))
            .add_key(km.id("k2"))
            .expected_command(Command::from(vec!["cc".to_string(), format!("-D{s}")]))
            .add_expected_material(ArtifactRule::Allow(format!("src/*{s}").as_str().into()))
            .add_expected_product(ArtifactRule::Create("a.out".into()))
            .add_expected_product(ArtifactRule::Disallow("*".into()));
        let s2 = Step::new("s2")
            .threshold(2)
            .add_key(km.id("k2"))
            .expected_command(Command::from("tar c"))
            .add_expected_material(ArtifactRule::Match {
                pattern: "a.out".into(),
                in_src: Some("in".to_string()),
                with: Artifact::Products,
                in_dst: Some("out".to_string()),
                from: format!("s1{s}"),
            })
            // the other three MATCH shapes (destination prefix only, source prefix only, neither)
            .add_expected_material(ArtifactRule::Match { pattern: "b.out".into(), in_src: None, with: Artifact::Products, in_dst: Some("out".to_string()), from: format!("s1{s}") })
            .add_expected_material(ArtifactRule::Match { pattern: "c.out".into(), in_src: Some("in".to_string()), with: Artifact::Materials, in_dst: None, from: format!("s1{s}") })
            .add_expected_material(ArtifactRule::Match { pattern: "d.out".into(), in_src: None, with: Artifact::Products, in_dst: None, from: format!("s1{s}") })
            .add_expected_product(ArtifactRule::Modify("x".into()));
        let i1 = Inspection::new("i1")
            .run(Command::from(vec!["sh".to_string(), "-c".to_string(), format!("true {s}")]))
            .add_expected_material(ArtifactRule::Require("a.out".into()));
        let i2 = Inspection::new("i2").run(Command::from("true"));
        let mut b = LayoutMetadataBuilder::new()
            .expires(crate::verify::t0())
            .readme(format!("readme {s}"))
            .add_key(km.pk("k1").clone())
            .add_key(km.pk("k2").clone());
        for k in listed_key_forms() {
            b = b.add_key(k);
        }
        MetadataWrapper::Layout(b.add_step(s1).add_step(s2).add_inspect(i1).add_inspect(i2).build().unwrap())
    }
}

/// public keys in every construction form of the public API (KeyId.tla's constructors), whatever the
/// family of the signers: a layout lists them in its key table, which is part of the signed content
pub fn listed_key_forms() -> Vec<PublicKey> {
    use in_toto::crypto::SignatureScheme;
    let ed = crate::keys::load("ed25519", 8).public().clone();
    let ec = crate::keys::load("ecdsa", 2).public().clone();
    let rsa = crate::keys::load("rsa2048-256", 1).public().clone();
    vec![
        PublicKey::from_ed25519(ed.as_bytes().to_vec()).unwrap(),
        PublicKey::from_ed25519_with_keyid_hash_algorithms(ed.as_bytes().to_vec(), Some(vec!["sha256".to_string()])).unwrap(),
        PublicKey::from_ecdsa(ec.as_bytes().to_vec()).unwrap(),
        PublicKey::from_ecdsa_with_keyid_hash_algorithms(ec.as_bytes().to_vec(), Some(vec!["sha512".to_string()])).unwrap(),
        // the hash-algorithm list present but empty
        PublicKey::from_ed25519_with_keyid_hash_algorithms(ed.as_bytes().to_vec(), Some(vec![])).unwrap(),
        PublicKey::from_ecdsa_with_keyid_hash_algorithms(ec.as_bytes().to_vec(), Some(vec![])).unwrap(),
        ec.clone(),
        PublicKey::from_spki(&rsa.as_spki().unwrap(), SignatureScheme::RsaSsaPssSha512).unwrap(),
        rsa.clone(),
    ]
}

fn bump_str(v: &mut Value) {
    let s = v.as_str().unwrap_or("").to_string();
    *v = json!(format!("{s}~"));
}

/// apply one edit to the JSON of the signed part; returns false if the edit does not apply
pub fn edit_signed(signed: &mut Value, field: &str, scn: &Value, rng: &mut impl Rng, km: &KeyMap) -> bool {
    let is_link = signed["_type"] == "link";
    let obj_rename = |m: &mut Value, pick: usize, newk: &dyn Fn(&str) -> String| -> bool {
        let o = match m.as_object_mut() {
            Some(o) => o,
            None => return false,
        };
        let keys: Vec<String> = o.keys().cloned().collect();
        if keys.is_empty() {
            return false;
        }
        let k = &keys[pick % keys.len()];
        let v = o.remove(k).unwrap();
        o.insert(newk(k), v);
        true
    };
    // the first string value (or member name) that holds `from` gets `to` in its place
    fn swap_char(v: &mut Value, keys: bool, from: char, to: char) -> bool {
        match v {
            Value::String(s) if !keys && s.contains(from) => {
                *s = s.replacen(from, &to.to_string(), 1);
                true
            }
            Value::Array(a) => a.iter_mut().any(|x| swap_char(x, keys, from, to)),
            Value::Object(o) => {
                if keys {
                    if let Some(k) = o.keys().find(|k| k.contains(from)).cloned() {
                        let val = o.remove(&k).unwrap();
                        o.insert(k.replacen(from, &to.to_string(), 1), val);
                        return true;
                    }
                }
                o.iter_mut().any(|(_, x)| swap_char(x, keys, from, to))
            }
            _ => false,
        }
    }
    match field {
        "high_twin_value" => {
            if rng.gen_bool(0.5) { swap_char(signed, false, '\u{141}', 'A') } else { swap_char(signed, false, '\u{4e42}', 'B') }
        }
        "high_twin_key" => swap_char(signed, true, '\u{141}', 'A'),
        // a SIBLING member is added whose name differs from an existing member's only in that character being
        // exchanged for its low-byte / low-16-bit twin (U+0141 or U+10041 -> A); it carries the same value
        "twin_member_add8" | "twin_member_add16" => {
            let from = if field.ends_with('8') { '\u{141}' } else { '\u{10041}' };
            fn add_twin(v: &mut Value, from: char) -> bool {
                match v {
                    Value::Object(o) => {
                        if let Some(k) = o.keys().find(|k| k.contains(from)).cloned() {
                            let val = o[&k].clone();
                            o.insert(k.replacen(from, "A", 1), val);
                            return true;
                        }
                        o.iter_mut().any(|(_, x)| add_twin(x, from))
                    }
                    Value::Array(a) => a.iter_mut().any(|x| add_twin(x, from)),
                    _ => false,
                }
            }
            add_twin(signed, from)
        }
        "high_twin_astral" => swap_char(signed, false, '\u{1f643}', 'C'),
        "name" => {
            if is_link {
                bump_str(&mut signed["name"])
            } else {
                bump_str(&mut signed["readme"])
            }
            true
        }
        "string" => {
            // near-collision: the string field content changes from class string `from` to `to`
            let to = instantiate(&scn["to"], rng);
            if is_link {
                signed["byproducts"]["stdout"] = json!(to);
            } else {
                signed["readme"] = json!(to);
            }
            true
        }
        // ---- link fields
        "mat_path" if is_link => obj_rename(&mut signed["materials"], 0, &|k| format!("{k}.x")),
        "prod_path" if is_link => obj_rename(&mut signed["products"], 1, &|k| format!("x/{k}")),
        // a path separator written as backslash: another name (a backslash is an ordinary character)
        "mat_path_backslash" if is_link => {
            let o = signed["materials"].as_object_mut().unwrap();
            let k = match o.keys().find(|k| k.contains('/')).cloned() {
                Some(k) => k,
                None => return false,
            };
            let v = o.remove(&k).unwrap();
            o.insert(k.replace('/', "\\"), v);
            true
        }
        "mat_digest" | "prod_digest" if is_link => {
            let side = if field == "mat_digest" { "materials" } else { "products" };
            let o = signed[side].as_object_mut().unwrap();
            let k = o.keys().next().cloned().unwrap();
            let h = o[&k]["sha256"].as_str().unwrap().to_string();
            let flipped = format!("{}{}", if h.starts_with('0') { "1" } else { "0" }, &h[1..]);
            o.get_mut(&k).unwrap()["sha256"] = json!(flipped);
            true
        }
        "mat_alg" | "prod_alg" if is_link => {
            let side = if field == "mat_alg" { "materials" } else { "products" };
            let o = signed[side].as_object_mut().unwrap();
            let k = o.keys().next().cloned().unwrap();
            obj_rename(o.get_mut(&k).unwrap(), 0, &|_| "sha512".to_string())
        }
        // one digest of an artifact recorded with two algorithms changes / disappears
        "two_alg_sha256" | "two_alg_sha512" | "two_alg_drop256" | "two_alg_drop512" if is_link => {
            let side = if field.ends_with("256") { "products" } else { "materials" };
            let key = if side == "products" { "zz.two.out" } else { "zz.two.c" };
            let alg = if field.ends_with("256") { "sha256" } else { "sha512" };
            let e = &mut signed[side][key];
            if !e.is_object() || e[alg].is_null() {
                return false;
            }
            if field.contains("drop") {
                e.as_object_mut().unwrap().remove(alg);
            } else {
                let h = e[alg].as_str().unwrap().to_string();
                let n = h.len();
                let last = if h.ends_with('0') { "1" } else { "0" };
                e[alg] = json!(format!("{}{}", &h[..n - 1], last));
            }
            true
        }
        "mat_add" if is_link => {
            signed["materials"]["zz.new"] = json!({"sha256": "00".repeat(32)});
            true
        }
        "prod_remove" if is_link => {
            let o = signed["products"].as_object_mut().unwrap();
            let k = o.keys().next().cloned().unwrap();
            o.remove(&k);
            true
        }
        "command_arg" if is_link => {
            bump_str(&mut signed["command"][1]);
            true
        }
        "command_split" if is_link => {
            signed["command"] = json!(["cc -D", "a.c"]);
            let a = signed["command"].clone();
            a != json!(["cc", "-D", "a.c"])
        }
        "command_add" if is_link => {
            signed["command"].as_array_mut().unwrap().push(json!(""));
            true
        }
        "stdout" if is_link => {
            bump_str(&mut signed["byproducts"]["stdout"]);
            true
        }
        "stdout_trailing_newline" if is_link => {
            let s = signed["byproducts"]["stdout"].as_str().unwrap().to_string();
            signed["byproducts"]["stdout"] = json!(s.trim_end_matches('\n'));
            true
        }
        "stderr" if is_link => {
            bump_str(&mut signed["byproducts"]["stderr"]);
            true
        }
        "retval" if is_link => {
            signed["byproducts"]["return-value"] = json!(1);
            true
        }
        "byp_extra_add" if is_link => {
            signed["byproducts"]["another"] = json!("v");
            true
        }
        "byp_extra_change" if is_link => {
            bump_str(&mut signed["byproducts"]["extra"]);
            true
        }
        "env_to_null" if is_link => {
            signed["environment"] = Value::Null;
            true
        }
        "env_to_empty" if is_link => {
            signed["environment"] = json!({});
            true
        }
        "env_add" if is_link => {
            signed["environment"]["NEW"] = json!("");
            true
        }
        "env_change" if is_link => {
            bump_str(&mut signed["environment"]["A"]);
            true
        }
        "env_key" if is_link => obj_rename(&mut signed["environment"], 0, &|k| format!("{k}_")),
        // fold all members of a string map into ONE member whose name spells `":"` and `","`
        "env_fold" | "byp_fold" if is_link => {
            let which = if field == "env_fold" { "environment" } else { "byproducts" };
            let o = match signed[which].as_object() {
                Some(o) => o.clone(),
                None => return false,
            };
            let strs: Vec<(String, String)> = o.iter().filter_map(|(k, v)| v.as_str().map(|x| (k.clone(), x.to_string()))).collect();
            if strs.len() < 2 {
                return false;
            }
            let mut name = String::new();
            for (n, (k, v)) in strs.iter().enumerate() {
                if n + 1 < strs.len() {
                    name.push_str(&format!("{k}\":\"{v}\",\""));
                } else {
                    name.push_str(k);
                }
            }
            let last = strs.last().unwrap().1.clone();
            let m = signed[which].as_object_mut().unwrap();
            for (k, _) in &strs {
                m.remove(k);
            }
            m.insert(name, json!(last));
            true
        }
        "command_fold" if is_link => {
            let a: Vec<String> = signed["command"].as_array().unwrap().iter().map(|x| x.as_str().unwrap_or("").to_string()).collect();
            if a.len() < 2 {
                return false;
            }
            signed["command"] = json!([a.join("\",\"")]);
            true
        }
        // two artifact entries folded into one path that spells the boundary and the first description
        "paths_fold" if is_link => {
            let o = signed["products"].as_object().unwrap().clone();
            if o.len() < 2 {
                return false;
            }
            let items: Vec<(String, Value)> = o.into_iter().collect();
            let (k1, v1) = &items[0];
            let (k2, v2) = &items[1];
            let inner = v1.to_string();
            let name = format!("{k1}\":{inner},\"{k2}");
            let m = signed["products"].as_object_mut().unwrap();
            m.remove(k1);
            m.remove(k2);
            m.insert(name, v2.clone());
            true
        }
        // ---- layout fields
        "readme" if !is_link => {
            bump_str(&mut signed["readme"]);
            true
        }
        "expires_plus1" | "expires_minus1" if !is_link => {
            let t = crate::verify::t0() + chrono::Duration::seconds(if field == "expires_plus1" { 1 } else { -1 });
            signed["expires"] = json!(t.to_rfc3339_opts(chrono::SecondsFormat::Secs, true));
            true
        }
        "expires_plus_year" | "expires_plus_day" if !is_link => {
            let cur = chrono::DateTime::parse_from_rfc3339(signed["expires"].as_str().unwrap()).unwrap().with_timezone(&chrono::Utc);
            let t = if field == "expires_plus_day" {
                cur + chrono::Duration::days(1)
            } else {
                use chrono::Datelike;
                cur.with_year(cur.year() + 1).unwrap_or(cur + chrono::Duration::days(365))
            };
            signed["expires"] = json!(t.to_rfc3339_opts(chrono::SecondsFormat::Secs, true));
            true
        }
        "step_name" if !is_link => {
            bump_str(&mut signed["steps"][1]["name"]);
            true
        }
        "step_threshold" if !is_link => {
            signed["steps"][0]["threshold"] = json!(2);
            true
        }
        "step_threshold_one_to_zero" if !is_link => {
            if signed["steps"][0]["threshold"] != json!(1) {
                return false;
            }
            signed["steps"][0]["threshold"] = json!(0);
            true
        }
        // a MATCH rule gains a source / destination clause whose prefix is the empty string
        "match_empty_src" | "match_empty_dst" if !is_link => {
            let r = match signed["steps"][1]["expected_materials"][3].as_array_mut() {
                Some(r) => r,
                None => return false,
            };
            // bare form: MATCH pat WITH x FROM step
            if r.len() != 6 {
                return false;
            }
            if field == "match_empty_src" {
                r.insert(2, json!("IN"));
                r.insert(3, json!(""));
            } else {
                r.insert(4, json!("IN"));
                r.insert(5, json!(""));
            }
            true
        }
        "step_threshold_zero" if !is_link => {
            signed["steps"][1]["threshold"] = json!(0);
            true
        }
        "pubkeys_add" if !is_link => {
            signed["steps"][1]["pubkeys"].as_array_mut().unwrap().push(json!(km.idstr("k3")));
            true
        }
        "pubkeys_remove" if !is_link => {
            signed["steps"][0]["pubkeys"].as_array_mut().unwrap().pop();
            true
        }
        // the same identifier spelled with another letter case is ANOTHER identifier (it authorises nobody)
        "pubkeys_case" if !is_link => {
            let id = signed["steps"][0]["pubkeys"][0].as_str().unwrap().to_string();
            let flipped: String = match id.char_indices().find(|(_, c)| c.is_ascii_lowercase()) {
                Some((i, c)) => format!("{}{}{}", &id[..i], c.to_ascii_uppercase(), &id[i + 1..]),
                None => return false,
            };
            signed["steps"][0]["pubkeys"][0] = json!(flipped);
            true
        }
        "pubkeys_swap" if !is_link => {
            signed["steps"][0]["pubkeys"].as_array_mut().unwrap().reverse();
            true
        }
        "step_command" if !is_link => {
            signed["steps"][1]["expected_command"] = json!(["tar", "x"]);
            true
        }
        "rule_keyword" if !is_link => {
            signed["steps"][0]["expected_products"][0][0] = json!("DELETE");
            true
        }
        "rule_pattern_backslash" if !is_link => {
            let cur = signed["steps"][0]["expected_materials"][0][1].as_str().unwrap_or("").to_string();
            if !cur.contains('/') {
                return false;
            }
            signed["steps"][0]["expected_materials"][0][1] = json!(cur.replace('/', "\\"));
            true
        }
        "rule_pattern" if !is_link => {
            bump_str(&mut signed["steps"][0]["expected_products"][0][1]);
            true
        }
        "rule_add" if !is_link => {
            signed["steps"][1]["expected_products"].as_array_mut().unwrap().push(json!(["ALLOW", "*"]));
            true
        }
        "rule_remove" if !is_link => {
            signed["steps"][0]["expected_products"].as_array_mut().unwrap().pop();
            true
        }
        "rule_swap" if !is_link => {
            signed["steps"][0]["expected_products"].as_array_mut().unwrap().reverse();
            true
        }
        "match_src" if !is_link => {
            signed["steps"][1]["expected_materials"][0][3] = json!("in2");
            true
        }
        "match_dst" if !is_link => {
            signed["steps"][1]["expected_materials"][0][7] = json!("out2");
            true
        }
        "match_drop_src" if !is_link => {
            let r = signed["steps"][1]["expected_materials"][0].as_array_mut().unwrap();
            r.remove(2);
            r.remove(2);
            true
        }
        "match_with" if !is_link => {
            signed["steps"][1]["expected_materials"][0][5] = json!("MATERIALS");
            true
        }
        // MATERIALS <-> PRODUCTS in each of the other MATCH shapes
        "match_with_dstonly" | "match_with_srconly" | "match_with_bare" if !is_link => {
            let idx = match field { "match_with_dstonly" => 1, "match_with_srconly" => 2, _ => 3 };
            let r = match signed["steps"][1]["expected_materials"][idx].as_array_mut() {
                Some(r) => r,
                None => return false,
            };
            let w = match r.iter().position(|t| t == "WITH") {
                Some(w) if w + 1 < r.len() => w,
                _ => return false,
            };
            r[w + 1] = json!(if r[w + 1] == "PRODUCTS" { "MATERIALS" } else { "PRODUCTS" });
            true
        }
        "match_from" if !is_link => {
            signed["steps"][1]["expected_materials"][0][9] = json!("s2");
            true
        }
        "insp_name" if !is_link => {
            bump_str(&mut signed["inspect"][0]["name"]);
            true
        }
        "insp_run" if !is_link => {
            signed["inspect"][1]["run"] = json!(["false"]);
            true
        }
        "insp_rule" if !is_link => {
            signed["inspect"][1]["expected_products"] = json!([["DISALLOW", "*"]]);
            true
        }
        "keys_add" if !is_link => {
            let pk = serde_json::to_value(km.pk("k3")).unwrap();
            signed["keys"][km.idstr("k3")] = pk;
            true
        }
        // inner fields of a key-table entry (the entry's identifier stays: the described key is another one)
        "key_entry_scheme" | "key_entry_public" | "key_entry_halgs" | "key_entry_type" if !is_link => {
            let id = km.idstr("k1");
            let e = &mut signed["keys"][&id];
            if !e.is_object() {
                return false;
            }
            match field {
                "key_entry_scheme" => {
                    let cur = e["scheme"].as_str().unwrap_or("").to_string();
                    e["scheme"] = json!(if cur == "rsassa-pss-sha256" { "rsassa-pss-sha512" } else if cur == "rsassa-pss-sha512" { "rsassa-pss-sha256" } else if cur == "ed25519" { "ecdsa-sha2-nistp256" } else { "ed25519" });
                }
                "key_entry_public" => {
                    let cur = e["keyval"]["public"].as_str().unwrap_or("").to_string();
                    // change one character in the middle of the material, staying inside its alphabet
                    let i = cur.len() / 2;
                    let c = cur.as_bytes()[i] as char;
                    let r = if c == '0' { '1' } else if c.is_ascii_digit() { '0' } else if c == 'a' { 'b' } else if c.is_ascii_lowercase() { 'a' } else if c == 'A' { 'B' } else if c.is_ascii_uppercase() { 'A' } else { return false };
                    e["keyval"]["public"] = json!(format!("{}{}{}", &cur[..i], r, &cur[i + 1..]));
                }
                "key_entry_halgs" => {
                    if e.as_object_mut().unwrap().remove("keyid_hash_algorithms").is_none() {
                        e["keyid_hash_algorithms"] = json!(["sha256", "sha512"]);
                    }
                }
                _ => {
                    let cur = e["keytype"].as_str().unwrap_or("").to_string();
                    e["keytype"] = json!(if cur == "ed25519" { "ecdsa" } else { "ed25519" });
                }
            }
            true
        }
        "keys_remove" if !is_link => {
            let id = km.idstr("k2");
            signed["keys"].as_object_mut().unwrap().remove(&id);
            true
        }
        "steps_swap" if !is_link => {
            signed["steps"].as_array_mut().unwrap().reverse();
            true
        }
        "inspect_swap" if !is_link => {
            signed["inspect"].as_array_mut().unwrap().reverse();
            true
        }
        "inspect_remove" if !is_link => {
            signed["inspect"].as_array_mut().unwrap().pop();
            true
        }
        _ => false,
    }
}

impl Ctx {
    pub fn new(family: &str) -> Ctx {
        let mut km = KeyMap::new(family, &["k1", "k2", "k3", "kx"]);
        // "k1b": the key material of k1 under another (valid) declaration - another key id, another signer
        let der = crate::keys::raw_der(family, 0);
        let alt = match family {
            "ed25519" => {
                let mut pair = der[16..48].to_vec();
                pair.extend_from_slice(km.pk("k1").as_bytes());
                in_toto::crypto::PrivateKey::from_ed25519(&pair).expect("ed25519 seed + public key")
            }
            "rsa2048-256" | "rsa4096-256" => in_toto::crypto::PrivateKey::from_pkcs8(der, SignatureScheme::RsaSsaPssSha512).unwrap(),
            "rsa2048-512" | "rsa4096-512" => in_toto::crypto::PrivateKey::from_pkcs8(der, SignatureScheme::RsaSsaPssSha256).unwrap(),
            _ => crate::keys::load("ed25519", 4),
        };
        km.add("k1b", alt);
        assert_ne!(km.idstr("k1"), km.idstr("k1b"));
        Ctx { km, family: family.to_string(), rng: rng(9) }
    }

    /// the material of `name` declared with another scheme
    fn star(&self, name: &str) -> Option<PublicKey> {
        let pk = self.km.pk(name);
        let (der, scheme) = match self.family.as_str() {
            "ed25519" => (pk.as_spki().ok()?, SignatureScheme::RsaSsaPssSha256),
            "ecdsa" => (crate::c12::ecdsa_spki(pk.as_bytes()), SignatureScheme::Ed25519),
            "rsa2048-256" | "rsa4096-256" => (pk.as_spki().ok()?, SignatureScheme::RsaSsaPssSha512),
            _ => (pk.as_spki().ok()?, SignatureScheme::RsaSsaPssSha256),
        };
        PublicKey::from_spki(&der, scheme).ok()
    }

    pub fn run(&mut self, scn: &Value) -> Value {
        // calendar-position classes for the expiry edits
        let dated = scn["ops"].as_array().unwrap().iter().any(|o| o["op"] == "edit" && o["field"].as_str().map(|f| f.starts_with("expires_plus_")).unwrap_or(false));
        if dated && scn.get("base_expiry").is_none() {
            let bases = ["2031-03-04T05:06:07Z", "2025-12-29T00:00:00Z", "2025-12-31T23:59:59Z", "2026-01-01T00:00:00Z", "2027-01-03T12:00:00Z",
                         "2028-02-28T00:00:00Z", "2028-02-29T00:00:00Z", "2030-12-30T00:00:00Z", "2032-12-31T00:00:00Z", "2024-12-30T08:00:00Z",
                         "2029-06-30T23:59:59Z", "1999-12-31T23:59:59Z"];
            let mut worst = json!({"out": "err", "note": {}});
            for b in bases {
                let mut s2 = scn.clone();
                s2["base_expiry"] = json!(b);
                let r = self.run(&s2);
                if r.get("skip").is_some() {
                    continue;
                }
                if r["out"] != "err" || r["note"]["bytes_differ"] == false {
                    let mut r = r;
                    r["note"]["base_expiry"] = json!(b);
                    return r;
                }
                worst = r;
            }
            return worst;
        }
        // ECDSA keys have one declaration only: no "same material, other id" signer in that family
        let has_k1b = scn["ops"][0]["signers"].as_array().map(|a| a.iter().any(|x| x == "k1b")).unwrap_or(false);
        if self.family == "ecdsa" && has_k1b {
            return json!({"skip": "no alternative declaration for this key type"});
        }
        // RSA keys have exactly two declarations: the "redeclared" key k1* of the specification would BE k1b
        let redeclares = scn["ops"].as_array().unwrap().iter().any(|o| o["op"] == "relabel_star" || o["keys"].as_str().map(|k| k.starts_with("redeclare")).unwrap_or(false));
        if self.family.starts_with("rsa") && has_k1b && redeclares {
            return json!({"skip": "the only other declaration of this key type is the second signer"});
        }
        let kind = scn["doc"].as_str().unwrap();
        let s = instantiate(&scn["s"], &mut self.rng);
        // the "high twin" edits need characters beyond U+00FF in the content to begin with
        let twin = scn["ops"].as_array().unwrap().iter().any(|o| o["op"] == "edit" && o["field"].as_str().map(|f| f.starts_with("high_twin") || f.starts_with("twin_member")).unwrap_or(false));
        let s = if twin { format!("{s}\u{141}\u{4e42}\u{1f643}\u{10041}") } else { s };
        let base = if scn["near"] == true {
            // string near-collision scenario: the string field holds exactly `from`
            let from = instantiate(&scn["from"], &mut self.rng);
            let mut v = serde_json::to_value(rich_doc(kind, "", &self.km)).unwrap();
            if kind == "link" {
                v["byproducts"]["stdout"] = json!(from);
            } else {
                v["readme"] = json!(from);
            }
            serde_json::from_str::<MetadataWrapper>(&serde_json::to_string(&v).unwrap()).unwrap()
        } else {
            rich_doc(kind, &s, &self.km)
        };
        let base = match (scn.get("base_expiry").and_then(|b| b.as_str()), &base) {
            (Some(b), MetadataWrapper::Layout(l)) => {
                let mut l = l.clone();
                l.expires = chrono::DateTime::parse_from_rfc3339(b).unwrap().with_timezone(&chrono::Utc);
                MetadataWrapper::Layout(l)
            }
            _ => base,
        };
        let mut block: Option<Metablock> = None;
        let mut text = String::new();
        let mut first_signer = String::new();
        let mut note = json!({});
        let mut out = "none".to_string();
        let mut wire_fmt = String::new();
        let listed: Vec<String> = scn["ops"][0]["signers"].as_array().unwrap().iter().map(|x| x.as_str().unwrap().to_string()).collect();
        // signature i of the specification: the builder keeps one signature per key (Lifecycle!Distinct keeps
        // the LAST listing of a key), the constructor one per listing
        let signer_names: Vec<String> = if scn["ops"][0]["op"] == "build" {
            listed.iter().enumerate().filter(|(i, n)| !listed[i + 1..].contains(n)).map(|(_, n)| n.clone()).collect()
        } else {
            listed.clone()
        };
        let km = &self.km;
        let pos_of = |b: &Metablock, i: usize| -> usize {
            // the n-th signature carrying that signer's id, n = number of earlier listings of the same signer
            let want = km.idstr(&signer_names[i]);
            let nth = signer_names[..i].iter().filter(|n| **n == signer_names[i]).count();
            let all: Vec<usize> = b.signatures.iter().enumerate().filter(|(_, s)| kid_str(s.key_id()) == want).map(|(p, _)| p).collect();
            *all.get(nth).or(all.last()).expect("signature of signer i")
        };
        for op in scn["ops"].as_array().unwrap() {
            match op["op"].as_str().unwrap() {
                c @ ("new" | "build") => {
                    let names: Vec<&str> = op["signers"].as_array().unwrap().iter().map(|x| x.as_str().unwrap()).collect();
                    first_signer = names[0].to_string();
                    let sks: Vec<&in_toto::crypto::PrivateKey> = names.iter().map(|n| self.km.sk(n)).collect();
                    let make = || {
                        if c == "new" {
                            Metablock::new(base.clone(), &sks).unwrap()
                        } else {
                            MetablockBuilder::from_metadata(base.clone().into_trait()).sign(&sks).unwrap().build()
                        }
                    };
                    let mut mb = make();
                    // encodings of variable length (ECDSA's DER pair of integers): every sixteenth scenario of each shard is signed
                    // again until an unusually SHORT encoding (below the common 70..72 bytes) turns up
                    let ecdsa_first = matches!(sks[0].public().scheme(), in_toto::crypto::SignatureScheme::EcdsaP256Sha256);
                    if ecdsa_first && (scn["i"].as_u64().unwrap_or(16) / 16) % 16 == 0 {
                        for _ in 0..5000 {
                            if mb.signatures.iter().any(|s| s.value().as_bytes().len() < 70) {
                                break;
                            }
                            mb = make();
                        }
                    }
                    // the builder keeps one signature per key; the constructor one per listed key
                    let distinct: std::collections::BTreeSet<&str> = names.iter().cloned().collect();
                    let want = if c == "new" { names.len() } else { distinct.len() };
                    if mb.signatures.len() != want {
                        note["signature_count"] = json!({"got": mb.signatures.len(), "want": want});
                    }
                    block = Some(mb);
                }
                "write" => {
                    let b = block.as_ref().unwrap();
                    use in_toto::interchange::{DataInterchange, Json, JsonPretty};
                    let mut buf = vec![];
                    text = match op["fmt"].as_str().unwrap() {
                        "pretty" => serde_json::to_string_pretty(b).unwrap(),
                        "cjson" => {
                            Json::to_writer(&mut buf, b).unwrap();
                            String::from_utf8(buf).unwrap()
                        }
                        "cjson_pretty" => {
                            JsonPretty::to_writer(&mut buf, b).unwrap();
                            String::from_utf8(buf).unwrap()
                        }
                        _ => serde_json::to_string(b).unwrap(),
                    };
                    wire_fmt = op["fmt"].as_str().unwrap().to_string();
                }
                "read" => match if wire_fmt.starts_with("cjson") {
                    <in_toto::interchange::Json as in_toto::interchange::DataInterchange>::from_slice::<Metablock>(text.as_bytes()).map_err(|e| e.to_string())
                } else {
                    serde_json::from_str::<Metablock>(&text).map_err(|e| e.to_string())
                } {
                    Ok(b) => {
                        if Some(&b) != block.as_ref() {
                            note["read_differs"] = json!(true);
                        }
                        // the block as read is verified once, per signer, before anything is changed: it must
                        // verify (C09), and nothing of that verification may outlive it (no edit below may
                        // profit from a signature having been accepted here)
                        for sg in &b.signatures {
                            let kid = crate::keys::kid_str(sg.key_id());
                            let name = self.km.name_of(&kid);
                            if name != kid {
                                let ok = guarded(|| b.verify(1, [self.km.pk(&name)]).is_ok());
                                if !matches!(ok, Ok(true)) {
                                    note["untouched_rejected"] = json!(name);
                                }
                            }
                        }
                        block = Some(b)
                    }
                    Err(e) => return json!({"out": "err", "note": {"read_failed": e.to_string()}}),
                },
                "edit" => {
                    let b = block.as_mut().unwrap();
                    let before = b.metadata.clone();
                    let mut signed = serde_json::to_value(&b.metadata).unwrap();
                    let field = op["field"].as_str().unwrap();
                    if !edit_signed(&mut signed, field, op, &mut self.rng, &self.km) {
                        return json!({"skip": format!("edit {field} does not apply")});
                    }
                    match serde_json::from_str::<MetadataWrapper>(&serde_json::to_string(&signed).unwrap()) {
                        Ok(m) => {
                            if m == before {
                                return json!({"skip": format!("edit {field} gives an equal parsed value")});
                            }
                            let bytes_differ = m.to_bytes().ok() != before.to_bytes().ok();
                            note["bytes_differ"] = json!(bytes_differ);
                            b.metadata = m;
                        }
                        Err(e) => return json!({"skip": format!("edited document does not parse: {e}")}),
                    }
                }
                "flip" => {
                    let b = block.as_mut().unwrap();
                    let i = pos_of(b, op["i"].as_u64().unwrap() as usize - 1);
                    let mut v = b.signatures[i].value().as_bytes().to_vec();
                    let bit = self.rng.gen_range(0..v.len() * 8);
                    v[bit / 8] ^= 1 << (bit % 8);
                    let kid = kid_str(b.signatures[i].key_id());
                    b.signatures[i] = make_sig(&kid, &v);
                }
                "relabel" => {
                    let b = block.as_mut().unwrap();
                    let i = pos_of(b, op["i"].as_u64().unwrap() as usize - 1);
                    let v = b.signatures[i].value().as_bytes().to_vec();
                    b.signatures[i] = make_sig(&km.idstr(op["to"].as_str().unwrap()), &v);
                }
                "dropsig" => {
                    let b = block.as_mut().unwrap();
                    // the builder sorts signatures by key id; drop the one made by signer i
                    let i = pos_of(b, op["i"].as_u64().unwrap() as usize - 1);
                    b.signatures.remove(i);
                }
                "relabel_star" => {
                    let b = block.as_mut().unwrap();
                    if let Some(star) = self.star(&first_signer) {
                        let want = self.km.idstr(&first_signer);
                        if let Some(pos) = b.signatures.iter().position(|s| kid_str(s.key_id()) == want) {
                            let v = b.signatures[pos].value().as_bytes().to_vec();
                            b.signatures[pos] = make_sig(&kid_str(star.key_id()), &v);
                        }
                    }
                }
                "verify" => {
                    // key choice is resolved at the final step, after any relabel_star
                    note["keys"] = op["keys"].clone();
                }
                o => panic!("op {o}"),
            }
        }
        // final verification
        let b = block.as_ref().unwrap();
        let mut signers: Vec<String> = scn["ops"][0]["signers"].as_array().unwrap().iter().map(|x| x.as_str().unwrap().to_string()).collect();
        let first = signers[0].clone();
        signers.sort();
        signers.dedup();
        // the abstract key choices speak about the SET of signers; "one" / "redeclare" about the first listed
        if let Some(p) = signers.iter().position(|s| *s == first) {
            signers.swap(0, p);
        }
        let other = ["k1", "k2", "k3", "kx"].iter().find(|k| !signers.iter().any(|s| s == *k)).unwrap().to_string();
        let kind_k = note["keys"].as_str().unwrap_or("signers").to_string();
        let mut keys: Vec<PublicKey> = signers.iter().map(|n| self.km.pk(n).clone()).collect();
        let mut t = signers.len() as u32;
        match kind_k.as_str() {
            "signers" => {}
            "other" => {
                keys = vec![self.km.pk(&other).clone()];
                t = 1;
            }
            "superset" => keys.push(self.km.pk(&other).clone()),
            "too_many" => {
                keys.push(self.km.pk(&other).clone());
                t += 1;
            }
            "one" => {
                keys = vec![self.km.pk(&signers[0]).clone()];
                t = 1;
            }
            "redeclare" | "redeclare_one" => {
                let star = match self.star(&signers[0]) {
                    Some(s) => s,
                    None => return json!({"skip": "cannot redeclare this key type"}),
                };
                if kind_k == "redeclare" {
                    keys[0] = star;
                } else {
                    keys = vec![star];
                    t = 1;
                }
            }
            "zero" => t = 0,
            k => panic!("keys {k}"),
        }
        let flipped_mixed = scn["ops"].as_array().unwrap().iter().any(|o| o["op"] == "flip" || o["op"] == "relabel" || o["op"] == "dropsig");
        let _ = flipped_mixed;
        let r = guarded(|| b.verify(t, keys.iter()));
        if out == "none" {
            out = outcome(&r).to_string();
        }
        json!({"out": out, "note": note})
    }

    /// every single bit of a signature value (C09: "any single-bit change")
    pub fn all_bits(&mut self, max_bits: usize) -> Value {
        let base = rich_doc("link", "bits", &self.km);
        let mb = Metablock::new(base, &[self.km.sk("k1")]).unwrap();
        let v = mb.signatures[0].value().as_bytes().to_vec();
        let kid = kid_str(mb.signatures[0].key_id());
        let nbits = v.len() * 8;
        let mut accepted = vec![];
        let step = (nbits / max_bits.max(1)).max(1);
        let mut n = 0;
        let mut bit = self.rng.gen_range(0..step);
        while bit < nbits {
            let mut w = v.clone();
            w[bit / 8] ^= 1 << (bit % 8);
            let b = Metablock { signatures: vec![make_sig(&kid, &w)], metadata: mb.metadata.clone() };
            if !matches!(guarded(|| b.verify(1, [self.km.pk("k1")])), Ok(Err(_))) {
                accepted.push(bit);
            }
            n += 1;
            bit += step;
        }
        let untouched = matches!(guarded(|| mb.verify(1, [self.km.pk("k1")])), Ok(Ok(_)));
        json!({"bits": n, "of": nbits, "accepted": accepted, "untouched_ok": untouched, "family": self.family})
    }
}

/// "expiry to the second": layouts that differ only in their expiry instant have different signed bytes.
/// ed25519 is deterministic, so equal signatures over two layouts mean equal signed bytes.
pub fn expiry_sweep(n_random: usize) -> Value {
    use chrono::TimeZone;
    use rand::Rng;
    let km = KeyMap::new("ed25519", &["k1", "k2", "k3", "kx"]);
    let mut rng = rng(55);
    let base = match rich_doc("layout", "", &km) {
        MetadataWrapper::Layout(l) => l,
        _ => unreachable!(),
    };
    let mut instants: Vec<i64> = vec![];
    // every day 1970-01-01 .. 2100-12-31 at a fixed time, every second of two new-year minutes, random seconds
    let d0 = chrono::Utc.with_ymd_and_hms(1970, 1, 1, 12, 0, 0).unwrap().timestamp();
    for day in 0..47846 {
        instants.push(d0 + day * 86400);
    }
    for y in [1999, 2025, 2026] {
        let t = chrono::Utc.with_ymd_and_hms(y, 12, 31, 23, 59, 0).unwrap().timestamp();
        for s in 0..120 {
            instants.push(t + s);
        }
    }
    for _ in 0..n_random {
        instants.push(rng.gen_range(0..4102444800i64));
    }
    instants.sort();
    instants.dedup();
    let mut seen: std::collections::HashMap<Vec<u8>, i64> = std::collections::HashMap::new();
    let mut bad = vec![];
    for t in &instants {
        let mut l = base.clone();
        l.expires = chrono::Utc.timestamp_opt(*t, 0).unwrap();
        let mb = match guarded(|| Metablock::new(MetadataWrapper::Layout(l), &[km.sk("k1")])) {
            Ok(Ok(mb)) => mb,
            _ => {
                bad.push(json!({"instant": t, "error": "signing failed"}));
                continue;
            }
        };
        let sig = mb.signatures[0].value().as_bytes().to_vec();
        if let Some(prev) = seen.insert(sig, *t) {
            if bad.len() < 5 {
                bad.push(json!({"same_signed_bytes": [chrono::Utc.timestamp_opt(prev, 0).unwrap().to_rfc3339(), chrono::Utc.timestamp_opt(*t, 0).unwrap().to_rfc3339()]}));
            }
        }
    }
    json!({"instants": instants.len(), "bad": bad})
}
