//! Abstract (JSON) -> library values shared by several modules.
use crate::common::*;
use in_toto::models::rule::{Artifact, ArtifactRule};
use in_toto::models::{LinkMetadata, LinkMetadataBuilder, VirtualTargetPath};
use serde_json::Value;

fn opt(s: &str) -> Option<String> {
    if s.is_empty() {
        None
    } else {
        Some(s.to_string())
    }
}

pub fn rule(r: &Value) -> ArtifactRule {
    let pat: VirtualTargetPath = r["pat"].as_str().unwrap().into();
    match r["k"].as_str().unwrap() {
        "CREATE" => ArtifactRule::Create(pat),
        "DELETE" => ArtifactRule::Delete(pat),
        "MODIFY" => ArtifactRule::Modify(pat),
        "ALLOW" => ArtifactRule::Allow(pat),
        "REQUIRE" => ArtifactRule::Require(pat),
        "DISALLOW" => ArtifactRule::Disallow(pat),
        "MATCH" => ArtifactRule::Match {
            pattern: pat,
            in_src: opt(r["src"].as_str().unwrap_or("")),
            with: if r["with"].as_str() == Some("M") { Artifact::Materials } else { Artifact::Products },
            in_dst: opt(r["dst"].as_str().unwrap_or("")),
            from: r["from"].as_str().unwrap().to_string(),
        },
        k => panic!("unknown rule kind {k}"),
    }
}

pub fn rules(v: &Value) -> Vec<ArtifactRule> {
    v.as_array().map(|a| a.iter().map(rule).collect()).unwrap_or_default()
}

/// link metadata from {"name", "mats":[{p,d}], "prods":[..]}
pub fn link(l: &Value) -> LinkMetadata {
    LinkMetadataBuilder::new()
        .name(l["name"].as_str().unwrap().to_string())
        .materials(artifacts(&l["mats"]))
        .products(artifacts(&l["prods"]))
        .build()
        .unwrap()
}
