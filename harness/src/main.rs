//! itv - conformance harness binding the TLA+ specifications in /verif/spec to in-toto-rs.
//!
//!   itv replay            scenario JSON lines on stdin -> result JSON lines on stdout
//!   itv record <m> <n>    n seeded random runs of module m -> ndjson trace on stdout
mod c03;
mod c04;
mod c10;
mod c11;
mod c12;
mod c14;
mod c18;
mod olpc;
mod c20;
mod common;
mod keys;
mod lifecycle;
mod model;
mod verify;
mod wire;

use serde_json::{json, Value};
use std::io::{BufRead, Write};

struct State {
    c04: Option<c04::Ctx>,
    verify: Option<verify::Ctx>,
    c11: Option<c11::Ctx>,
    life: Option<lifecycle::Ctx>,
    wire: Option<wire::Ctx>,
    c14: Option<c14::Ctx>,
}

fn dispatch(st: &mut State, scn: &Value) -> Value {
    match scn["m"].as_str().unwrap_or("") {
        "C03" => c03::run(scn, false),
        "VERIFY" => {
            let prop = scn["prop"].as_str().unwrap_or("").to_string();
            let pin = std::env::var("ITV_CLOCK").map(|v| v != "real").unwrap_or(true);
            let ev = std::env::var("ITV_EVENTS").is_ok();
            st.verify.get_or_insert_with(|| verify::Ctx::new(&common::family(), &prop)).run(scn, ev, pin)
        }
        "C20" => c20::run(scn),
        "C14" => st.c14.get_or_insert_with(c14::Ctx::new).run(scn),
        "C18" => c18::run(scn),
        "WIRE" => match scn["kind"].as_str().unwrap_or("") {
            "rule" => wire::run_rule(scn),
            "pred" => wire::run_pred(scn),
            "stmt" => wire::run_stmt(scn),
            _ => st.wire.get_or_insert_with(wire::Ctx::new).run_doc(scn),
        },
        "C12" => if scn["kind"] == "path" { c12::run_path(scn) } else { c12::run_table(scn, &common::family()) },
        "LIFE" => st.life.get_or_insert_with(|| lifecycle::Ctx::new(&common::family())).run(scn),
        "C10" => c10::run(scn, &mut common::rng(10 + scn["i"].as_u64().unwrap_or(0) + 1000003 * std::env::var("ITV_SALT").ok().and_then(|s| s.parse::<u64>().ok()).unwrap_or(0))),
        "C11" => st.c11.get_or_insert_with(c11::Ctx::new).run(scn),
        "C04" => st.c04.get_or_insert_with(|| c04::Ctx::new(&common::family())).run(scn, true, false),
        m => json!({"error": format!("unknown module {m}")}),
    }
}

fn main() {
    let args: Vec<String> = std::env::args().collect();
    let cmd = args.get(1).map(|s| s.as_str()).unwrap_or("");
    common::quiet_panics();
    let mut st = State { c04: None, verify: None, c11: None, life: None, wire: None, c14: None };
    let stdout = std::io::stdout();
    let mut out = std::io::BufWriter::new(stdout.lock());
    match cmd {
        "genkey" => {
            let kt = match args.get(2).map(|s| s.as_str()) {
                Some("ed25519") => in_toto::crypto::KeyType::Ed25519,
                Some("ecdsa") => in_toto::crypto::KeyType::Ecdsa,
                _ => panic!("genkey ed25519|ecdsa"),
            };
            let der = in_toto::crypto::PrivateKey::new(kt).unwrap();
            out.write_all(&der).unwrap();
        }
        "loadkey" => {
            // diagnostic: itv loadkey <pkcs8.der>  - which schemes accept this key
            let der = std::fs::read(&args[2]).unwrap();
            for sch in [in_toto::crypto::SignatureScheme::RsaSsaPssSha256, in_toto::crypto::SignatureScheme::Ed25519, in_toto::crypto::SignatureScheme::EcdsaP256Sha256] {
                let r = in_toto::crypto::PrivateKey::from_pkcs8(&der, sch.clone());
                writeln!(out, "{:?}: {}", sch, match r { Ok(k) => format!("ok id {:?}", k.key_id()), Err(e) => format!("ERR {e}") }).unwrap();
            }
            let r = ring::signature::RsaKeyPair::from_pkcs8(&der);
            writeln!(out, "ring RsaKeyPair::from_pkcs8: {:?}", r.map(|k| k.public_modulus_len())).unwrap();
        }
        "replay" => {
            // ITV_EVERY=n: a thin slice - only every n-th scenario is run (the others are reported as skipped)
            let every: u64 = std::env::var("ITV_EVERY").ok().and_then(|s| s.parse().ok()).unwrap_or(1).max(1);
            for (i, line) in std::io::stdin().lock().lines().enumerate() {
                let line = line.unwrap();
                if line.trim().is_empty() {
                    continue;
                }
                let scn: Value = serde_json::from_str(&line).expect("scenario json");
                let idx = scn.get("i").and_then(|x| x.as_u64()).unwrap_or(i as u64);
                // (shards are filled round-robin over 16 files: divide first, so that the slice is spread over all of them)
                if every > 1 && (idx / 16) % every != 0 {
                    writeln!(out, "{}", json!({"i": idx, "skip": "thinned"})).unwrap();
                    continue;
                }
                let mut r = match common::guarded(|| dispatch(&mut st, &scn)) {
                    Ok(v) => v,
                    Err(msg) => json!({"harness_panic": msg}),
                };
                r["i"] = scn.get("i").cloned().unwrap_or(json!(i));
                writeln!(out, "{}", r).unwrap();
                // a crash of the process must not lose the results obtained so far
                out.flush().unwrap();
            }
        }
        "record" => {
            let m = args.get(2).map(|s| s.as_str()).unwrap_or("");
            let n: usize = args.get(3).and_then(|s| s.parse().ok()).unwrap_or(100);
            match m {
                "C04" => {
                    let mut rng = common::rng(4);
                    let mut ctx = c04::Ctx::new(&common::family());
                    for run in 0..n {
                        let scn = c04::random_scn(&mut rng);
                        let r = ctx.run(&scn, false, true);
                        writeln!(out, "{}", json!({"ev": "reset", "run": run, "t": scn["t"], "auth": scn["auth"], "sigs": scn["sigs"]})).unwrap();
                        for e in r["ev"].as_array().unwrap() {
                            writeln!(out, "{}", e).unwrap();
                        }
                        writeln!(out, "{}", json!({"ev": "result", "out": r["outs"][0]})).unwrap();
                    }
                }
                "C20" => c20::record(n, &mut out),
                "C05dates" => writeln!(out, "{}", lifecycle::expiry_sweep(n)).unwrap(),
                "VERIFY" => {
                    // random pipeline runs beyond the TLC bounds, as a trace for Trace_Verify
                    let mut rng = common::rng(77);
                    let mut ctx = verify::Ctx::new(&common::family(), "RANDOM");
                    let work = tempfile::tempdir().unwrap();
                    std::env::set_current_dir(work.path()).unwrap();
                    for run in 0..n {
                        let scn = verify::random_scn(&mut rng);
                        let r = ctx.run(&scn, true, true);
                        writeln!(out, "{}", json!({"ev": "reset", "run": run, "scn": r["reset"]})).unwrap();
                        for e in r["ev"].as_array().unwrap() {
                            writeln!(out, "{}", e).unwrap();
                        }
                        writeln!(out, "{}", json!({"ev": "result", "out": r["out"]})).unwrap();
                    }
                }
                "C14mut" => writeln!(out, "{}", c14::mutate(n)).unwrap(),
                // n = 0: every deep / long document; n = k + 1: only the k-th
                "C14deep" => writeln!(out, "{}", c14::deep(if n == 0 { usize::MAX } else { n - 1 })).unwrap(),
                "C17file" => writeln!(out, "{}", c14::linkdir_channel()).unwrap(),
                "C19meta" => writeln!(out, "{}", wire::from_meta_checks(n)).unwrap(),
                "C09bits" => writeln!(out, "{}", lifecycle::Ctx::new(&common::family()).all_bits(n)).unwrap(),
                "C10all" => writeln!(out, "{}", c10::all_scalars(n.max(1) as u32)).unwrap(),
                "C11keyid" => writeln!(out, "{}", c12::keyid_preimages()).unwrap(),
                "C11all" => writeln!(out, "{}", c11::Ctx::new().all_scalars(n.max(1) as u32)).unwrap(),
                "C20bin" => writeln!(out, "{}", c20::binary(n)).unwrap(),
                // n = 0: every crafted extreme-length input; n = k + 1: only the k-th
                "C20ext" => writeln!(out, "{}", c20::extreme(if n == 0 { usize::MAX } else { n - 1 })).unwrap(),
                "C03" => {
                    let mut rng = common::rng(3);
                    for run in 0..n {
                        let scn = c03::random_scn(&mut rng);
                        let r = c03::run(&scn, true);
                        writeln!(out, "{}", c03::reset_event(&scn, run)).unwrap();
                        for e in r["ev"].as_array().unwrap() {
                            writeln!(out, "{}", e).unwrap();
                        }
                        writeln!(out, "{}", json!({"ev": "result", "out": r["out"]})).unwrap();
                    }
                }
                _ => {
                    eprintln!("record: unknown module {m}");
                    std::process::exit(2);
                }
            }
        }
        _ => {
            eprintln!("usage: itv replay | record <m> <n> | genkey <type>");
            std::process::exit(2);
        }
    }
    out.flush().unwrap();
}
