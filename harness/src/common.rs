//! Shared helpers: guarded execution, seeded rng, sample metadata.
use in_toto::models::{LinkMetadataBuilder, MetadataWrapper, VirtualTargetPath};
use rand::{rngs::StdRng, SeedableRng};
use serde_json::{json, Value};
use std::collections::{BTreeMap, HashMap};
use std::panic::{catch_unwind, AssertUnwindSafe};

pub fn seed() -> u64 {
    std::env::var("VERIF_SEED").ok().and_then(|s| s.parse().ok()).unwrap_or(1)
}

pub fn rng(salt: u64) -> StdRng {
    StdRng::seed_from_u64(seed().wrapping_mul(0x9E3779B97F4A7C15).wrapping_add(salt))
}

pub fn family() -> String {
    std::env::var("ITV_FAMILY").unwrap_or_else(|_| "ed25519".to_string())
}

/// Run `f`, turning a panic into Err(message).
pub fn guarded<T>(f: impl FnOnce() -> T) -> Result<T, String> {
    catch_unwind(AssertUnwindSafe(f)).map_err(|e| {
        if let Some(s) = e.downcast_ref::<&str>() {
            s.to_string()
        } else if let Some(s) = e.downcast_ref::<String>() {
            s.clone()
        } else {
            "panic".to_string()
        }
    })
}

pub fn quiet_panics() {
    if std::env::var("ITV_PANICS").is_ok() {
        // report where the library panicked (diagnosis of C14 findings)
        std::panic::set_hook(Box::new(|info| {
            if let Some(l) = info.location() {
                eprintln!("PANIC at {}:{}", l.file(), l.line());
            }
        }));
    } else {
        std::panic::set_hook(Box::new(|_| {}));
    }
}

/// "ok" / "err" / "panic" for a guarded library result
pub fn outcome<T, E>(r: &Result<Result<T, E>, String>) -> &'static str {
    match r {
        Ok(Ok(_)) => "ok",
        Ok(Err(_)) => "err",
        Err(_) => "panic",
    }
}

pub fn digest_of(d: &str) -> Vec<u8> {
    match d {
        "h1" => vec![0x11; 32],
        "h2" => vec![0x22; 32],
        "h3" => vec![0x33; 32],
        other => {
            let mut v = other.as_bytes().to_vec();
            v.resize(32, 0x5a);
            v
        }
    }
}

/// digest map of a symbol: "<sym>" sha256 only; "s512:<sym>" sha512 only; "both:<sym>" both algorithms;
/// "mix:<a>:<b>" sha256 of <a> with sha512 of <b>
pub fn target(d: &str) -> in_toto::models::TargetDescription {
    use in_toto::crypto::{HashAlgorithm, HashValue};
    let long = |sym: &str| {
        let mut v = digest_of(sym);
        v.extend(digest_of(sym));
        v
    };
    let mut m = HashMap::new();
    if let Some(x) = d.strip_prefix("s512:") {
        m.insert(HashAlgorithm::Sha512, HashValue::new(long(x)));
    } else if let Some(x) = d.strip_prefix("both:") {
        m.insert(HashAlgorithm::Sha256, HashValue::new(digest_of(x)));
        m.insert(HashAlgorithm::Sha512, HashValue::new(long(x)));
    } else if let Some(x) = d.strip_prefix("mix:") {
        let (a, b) = x.split_once(':').expect("mix:a:b");
        m.insert(HashAlgorithm::Sha256, HashValue::new(digest_of(a)));
        m.insert(HashAlgorithm::Sha512, HashValue::new(long(b)));
    } else {
        m.insert(HashAlgorithm::Sha256, HashValue::new(digest_of(d)));
    }
    m
}

/// artifact map from [{"p":..,"d":..}]
pub fn artifacts(v: &Value) -> BTreeMap<VirtualTargetPath, in_toto::models::TargetDescription> {
    let mut m = BTreeMap::new();
    for a in v.as_array().map(|a| a.as_slice()).unwrap_or(&[]) {
        m.insert(
            VirtualTargetPath::new(a["p"].as_str().unwrap().to_string()).unwrap(),
            target(a["d"].as_str().unwrap()),
        );
    }
    m
}

pub fn simple_link(name: &str) -> MetadataWrapper {
    MetadataWrapper::Link(
        LinkMetadataBuilder::new()
            .name(name.to_string())
            .materials(artifacts(&json!([{"p": "src/a.c", "d": "h1"}])))
            .products(artifacts(&json!([{"p": "a.out", "d": "h2"}])))
            .build()
            .unwrap(),
    )
}

pub fn chars(s: &str) -> Vec<String> {
    s.chars().map(|c| c.to_string()).collect()
}

/// all permutations of 0..n (n <= 4)
pub fn perms(n: usize) -> Vec<Vec<usize>> {
    fn go(cur: &mut Vec<usize>, used: &mut Vec<bool>, n: usize, out: &mut Vec<Vec<usize>>) {
        if cur.len() == n {
            out.push(cur.clone());
            return;
        }
        for i in 0..n {
            if !used[i] {
                used[i] = true;
                cur.push(i);
                go(cur, used, n, out);
                cur.pop();
                used[i] = false;
            }
        }
    }
    let mut out = vec![];
    go(&mut vec![], &mut vec![false; n], n, &mut out);
    out
}
