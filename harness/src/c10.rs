//! C10: the public canonical JSON encoder (CJsonValues.tla).
use crate::common::*;
use crate::olpc::*;
use in_toto::interchange::{DataInterchange, Json};
use rand::Rng;
use serde_json::{json, Value};

/// concrete tree with numbers kept as source text
#[derive(Clone, Debug)]
pub enum CV {
    Null,
    Bool(bool),
    Num { text: String, exact: Option<String> },
    Str(String),
    Arr(Vec<CV>),
    Obj(Vec<(String, CV)>),
}

fn num_of(class: &str, rng: &mut impl Rng) -> CV {
    let (text, exact): (String, Option<String>) = match class {
        "i64min" => ("-9223372036854775808".into(), Some("-9223372036854775808".into())),
        "neg" => {
            let n: i64 = -rng.gen_range(1..i64::MAX);
            (n.to_string(), Some(n.to_string()))
        }
        "zero" => ("0".into(), Some("0".into())),
        "pos" => {
            let n: i64 = rng.gen_range(1..i64::MAX);
            (n.to_string(), Some(n.to_string()))
        }
        "i64max" => ("9223372036854775807".into(), Some("9223372036854775807".into())),
        "i64max+1" => ("9223372036854775808".into(), Some("9223372036854775808".into())),
        "u64max" => ("18446744073709551615".into(), Some("18446744073709551615".into())),
        "u64max+1" => ("18446744073709551616".into(), Some("18446744073709551616".into())),
        "i64min-1" => ("-9223372036854775809".into(), Some("-9223372036854775809".into())),
        "frac" => (["1.5", "-0.25", "3.141592653589793", "1e-2"][rng.gen_range(0..4)].into(), None),
        "exp" => ("1e2".into(), Some("100".into())),
        "one.zero" => ("1.0".into(), Some("1".into())),
        "negzero" => ("-0".into(), Some("0".into())),
        "bigexp" => ("1e400".into(), None),
        c => panic!("num class {c}"),
    };
    CV::Num { text, exact }
}

/// the nesting a tower names: x inside n containers (arrays / one-member objects / alternating)
pub fn expand_towers(v: &Value) -> Value {
    match v["t"].as_str().unwrap_or("") {
        "tower" => {
            let sh = v["sh"].as_str().unwrap();
            let mut cur = expand_towers(&v["x"]);
            for level in 1..=v["n"].as_u64().unwrap() {
                cur = if sh == "arr" || (sh == "mix" && level % 2 == 1) {
                    json!({"t": "arr", "a": [cur]})
                } else {
                    json!({"t": "obj", "o": [{"k": ["A"], "v": cur}]})
                };
            }
            cur
        }
        "arr" => json!({"t": "arr", "a": v["a"].as_array().unwrap().iter().map(expand_towers).collect::<Vec<_>>()}),
        "obj" => json!({"t": "obj", "o": v["o"].as_array().unwrap().iter().map(|m| json!({"k": m["k"], "v": expand_towers(&m["v"])})).collect::<Vec<_>>()}),
        _ => v.clone(),
    }
}

pub fn concretize(v: &Value, rng: &mut impl Rng) -> CV {
    match v["t"].as_str().unwrap() {
        "null" => CV::Null,
        "bool" => CV::Bool(v["b"].as_bool().unwrap()),
        "num" => num_of(v["c"].as_str().unwrap(), rng),
        "str" => CV::Str(instantiate(&v["s"], rng)),
        "arr" => CV::Arr(v["a"].as_array().unwrap().iter().map(|x| concretize(x, rng)).collect()),
        "obj" => {
            let mut ms: Vec<(String, CV)> = vec![];
            for m in v["o"].as_array().unwrap() {
                let mut k = instantiate(&m["k"], rng);
                let mut guard = 0;
                while ms.iter().any(|(kk, _)| *kk == k) && guard < 50 {
                    k = instantiate(&m["k"], rng);
                    guard += 1;
                }
                ms.push((k, concretize(&m["v"], rng)));
            }
            CV::Obj(ms)
        }
        t => panic!("value type {t}"),
    }
}

#[derive(Clone, Copy)]
pub struct Mode {
    pub reverse: bool,
    pub spaces: bool,
    pub escape_all: bool,
    pub slash: bool,
}

fn write_str(s: &str, m: Mode, out: &mut String) {
    out.push('"');
    for c in s.chars() {
        if m.escape_all {
            let mut b = [0u16; 2];
            for u in c.encode_utf16(&mut b) {
                out.push_str(&format!("\\u{:04x}", u));
            }
        } else if m.slash && c == '/' {
            out.push_str("\\/");
        } else {
            match c {
                '"' => out.push_str("\\\""),
                '\\' => out.push_str("\\\\"),
                c if (c as u32) < 0x20 => out.push_str(&format!("\\u{:04X}", c as u32)),
                c => out.push(c),
            }
        }
    }
    out.push('"');
}

pub fn spell(v: &CV, m: Mode, out: &mut String) {
    let sp = |out: &mut String| {
        if m.spaces {
            out.push_str(" \n\t ");
        }
    };
    match v {
        CV::Null => out.push_str("null"),
        CV::Bool(b) => out.push_str(if *b { "true" } else { "false" }),
        CV::Num { text, .. } => out.push_str(text),
        CV::Str(s) => write_str(s, m, out),
        CV::Arr(a) => {
            out.push('[');
            sp(out);
            for (i, x) in a.iter().enumerate() {
                if i > 0 {
                    out.push(',');
                    sp(out);
                }
                spell(x, m, out);
                sp(out);
            }
            out.push(']');
        }
        CV::Obj(ms) => {
            out.push('{');
            sp(out);
            let order: Vec<usize> = if m.reverse { (0..ms.len()).rev().collect() } else { (0..ms.len()).collect() };
            for (n, i) in order.iter().enumerate() {
                if n > 0 {
                    out.push(',');
                    sp(out);
                }
                write_str(&ms[*i].0, m, out);
                sp(out);
                out.push(':');
                sp(out);
                spell(&ms[*i].1, m, out);
                sp(out);
            }
            out.push('}');
        }
    }
}

/// independent tokeniser of canonical output; whitespace outside strings is an error
pub fn tokenize(b: &[u8], cv_nums: &mut Vec<String>) -> Result<(Vec<Value>, bool), String> {
    let s = std::str::from_utf8(b).map_err(|e| e.to_string())?;
    let cs: Vec<char> = s.chars().collect();
    let mut i = 0;
    let mut toks = vec![];
    let mut sorted = true;
    // stack of last key per open object
    let mut last_key: Vec<Option<String>> = vec![];
    let mut expect_key: Vec<bool> = vec![];
    while i < cs.len() {
        let c = cs[i];
        match c {
            '{' => {
                toks.push(json!({"k": "{"}));
                last_key.push(None);
                expect_key.push(true);
                i += 1;
            }
            '}' => {
                toks.push(json!({"k": "}"}));
                last_key.pop();
                expect_key.pop();
                i += 1;
            }
            '[' => {
                toks.push(json!({"k": "["}));
                expect_key.push(false);
                last_key.push(None);
                i += 1;
            }
            ']' => {
                toks.push(json!({"k": "]"}));
                expect_key.pop();
                last_key.pop();
                i += 1;
            }
            ',' => {
                toks.push(json!({"k": ","}));
                if let Some(e) = expect_key.last_mut() {
                    if last_key.last().map(|k| k.is_some()).unwrap_or(false) {
                        *e = true;
                    }
                }
                i += 1;
            }
            ':' => {
                toks.push(json!({"k": ":"}));
                i += 1;
            }
            '"' => {
                let mut atoms: Vec<String> = vec![];
                let mut decoded = String::new();
                i += 1;
                loop {
                    if i >= cs.len() {
                        return Err("unterminated string".into());
                    }
                    let c = cs[i];
                    if c == '"' {
                        i += 1;
                        break;
                    }
                    if c == '\\' {
                        atoms.push("\\".into());
                        let e = *cs.get(i + 1).ok_or("eof in escape")?;
                        match e {
                            '"' => {
                                atoms.push("\"".into());
                                decoded.push('"');
                                i += 2;
                            }
                            '\\' => {
                                atoms.push("\\".into());
                                decoded.push('\\');
                                i += 2;
                            }
                            '/' => {
                                atoms.push("/".into());
                                decoded.push('/');
                                i += 2;
                            }
                            'n' => {
                                atoms.push("n".into());
                                decoded.push('\n');
                                i += 2;
                            }
                            'b' | 'f' | 'r' | 't' => {
                                atoms.push("e".into());
                                decoded.push(match e {
                                    'b' => '\u{8}',
                                    'f' => '\u{c}',
                                    'r' => '\r',
                                    _ => '\t',
                                });
                                i += 2;
                            }
                            'u' => {
                                let hex: String = cs.get(i + 2..i + 6).ok_or("short \\u")?.iter().collect();
                                let u = u32::from_str_radix(&hex, 16).map_err(|e| e.to_string())?;
                                if (0xd800..0xdc00).contains(&u) {
                                    if cs.get(i + 6) != Some(&'\\') || cs.get(i + 7) != Some(&'u') {
                                        return Err("lone surrogate".into());
                                    }
                                    let hex2: String = cs.get(i + 8..i + 12).ok_or("short \\u")?.iter().collect();
                                    let lo = u32::from_str_radix(&hex2, 16).map_err(|e| e.to_string())?;
                                    let cp = 0x10000 + ((u - 0xd800) << 10) + (lo - 0xdc00);
                                    decoded.push(char::from_u32(cp).ok_or("bad pair")?);
                                    atoms.push("X2".into());
                                    i += 12;
                                } else {
                                    decoded.push(char::from_u32(u).ok_or("bad \\u")?);
                                    atoms.push("x".into());
                                    i += 6;
                                }
                            }
                            o => return Err(format!("invalid escape \\{o}")),
                        }
                    } else {
                        atoms.push(if c == '\n' { "LF".to_string() } else { class_of(c).to_string() });
                        decoded.push(c);
                        i += 1;
                    }
                }
                let classes: Vec<&str> = decoded.chars().map(class_of).collect();
                toks.push(json!({"k": "str", "s": classes, "a": atoms}));
                // member name?
                if expect_key.last() == Some(&true) && cs.get(i) == Some(&':') {
                    if let Some(Some(prev)) = last_key.last() {
                        if !(prev.as_str() < decoded.as_str()) {
                            sorted = false;
                        }
                    }
                    if let Some(k) = last_key.last_mut() {
                        *k = Some(decoded);
                    }
                    if let Some(e) = expect_key.last_mut() {
                        *e = false;
                    }
                }
            }
            'n' if cs[i..].starts_with(&['n', 'u', 'l', 'l']) => {
                toks.push(json!({"k": "null"}));
                i += 4;
            }
            't' if cs[i..].starts_with(&['t', 'r', 'u', 'e']) => {
                toks.push(json!({"k": "true"}));
                i += 4;
            }
            'f' if cs[i..].starts_with(&['f', 'a', 'l', 's', 'e']) => {
                toks.push(json!({"k": "false"}));
                i += 5;
            }
            '-' | '0'..='9' => {
                let st = i;
                while i < cs.len() && matches!(cs[i], '-' | '+' | '.' | 'e' | 'E' | '0'..='9') {
                    i += 1;
                }
                cv_nums.push(cs[st..i].iter().collect());
                toks.push(json!({"k": "num"}));
            }
            o => return Err(format!("unexpected character {:?} (whitespace?)", o)),
        }
    }
    Ok((toks, sorted))
}

fn collect_nums(v: &CV, abs: &Value, out: &mut Vec<(String, Option<String>)>) {
    match v {
        CV::Num { exact, .. } => out.push((abs["c"].as_str().unwrap().to_string(), exact.clone())),
        CV::Arr(a) => {
            for (x, ax) in a.iter().zip(abs["a"].as_array().unwrap()) {
                collect_nums(x, ax, out);
            }
        }
        CV::Obj(ms) => {
            for ((_, x), am) in ms.iter().zip(abs["o"].as_array().unwrap()) {
                collect_nums(x, &am["v"], out);
            }
        }
        _ => {}
    }
}

pub fn run(scn: &Value, rng: &mut impl Rng) -> Value {
    let named = &scn["v"];
    let expanded = expand_towers(named);
    let abs = &expanded;
    let cv = concretize(abs, rng);
    let modes = [
        Mode { reverse: false, spaces: false, escape_all: false, slash: false },
        Mode { reverse: true, spaces: true, escape_all: false, slash: false },
        Mode { reverse: true, spaces: false, escape_all: true, slash: false },
        Mode { reverse: false, spaces: true, escape_all: false, slash: true },
    ];
    let mut results: Vec<Result<Vec<u8>, String>> = vec![];
    let mut first_val: Option<Value> = None;
    for m in modes {
        let mut text = String::new();
        spell(&cv, m, &mut text);
        let val: Value = match serde_json::from_str(&text) {
            Ok(v) => v,
            Err(_) => return json!({"skip": "source text is not a JSON value for the parser", "text": text}),
        };
        if first_val.is_none() {
            first_val = Some(val.clone());
        }
        match guarded(|| Json::canonicalize(&val)) {
            Ok(Ok(b)) => results.push(Ok(b)),
            Ok(Err(e)) => results.push(Err(e.to_string())),
            Err(p) => return json!({"out": "panic", "msg": p}),
        }
    }
    let same = results.windows(2).all(|w| match (&w[0], &w[1]) {
        (Ok(a), Ok(b)) => a == b,
        (Err(_), Err(_)) => true,
        _ => false,
    });
    let mut ev = json!({"ev": "canon", "v": named, "same": same, "sorted": true, "parseback": true, "nums_exact": true, "toks": []});
    match &results[0] {
        Err(e) => {
            ev["res"] = json!("err");
            json!({"out": "err", "same": same, "msg": e, "event": ev})
        }
        Ok(bytes) => {
            ev["res"] = json!("ok");
            let parseback = serde_json::from_slice::<Value>(bytes).map(|v| Some(&v) == first_val.as_ref()).unwrap_or(false);
            let mut numtexts = vec![];
            let (toks, sorted, tok_err) = match tokenize(bytes, &mut numtexts) {
                Ok((t, s)) => (t, s, None),
                Err(e) => (vec![], false, Some(e)),
            };
            // numbers: in document order of the canonical output the order may differ from the source; compare as multisets
            let mut want = vec![];
            collect_nums(&cv, abs, &mut want);
            let mut exact = true;
            let mut toks = toks;
            let mut want_sorted: Vec<(String, Option<String>)> = want.clone();
            want_sorted.sort();
            let mut got = numtexts.clone();
            got.sort();
            let mut wtexts: Vec<String> = want.iter().map(|(_, e)| e.clone().unwrap_or_else(|| "<none>".into())).collect();
            wtexts.sort();
            if got != wtexts {
                exact = false;
            }
            // attach class / exactness to the number tokens by matching text
            let mut ni = 0;
            for t in toks.iter_mut() {
                if t["k"] == "num" {
                    let txt = &numtexts[ni];
                    ni += 1;
                    let cls = want.iter().find(|(_, e)| e.as_deref() == Some(txt.as_str())).map(|(c, _)| c.clone());
                    t["c"] = json!(cls.clone().unwrap_or_else(|| "?".into()));
                    t["exact"] = json!(cls.is_some());
                }
            }
            ev["toks"] = json!(toks);
            ev["sorted"] = json!(sorted);
            ev["parseback"] = json!(parseback);
            ev["nums_exact"] = json!(exact);
            json!({"out": "ok", "same": same, "sorted": sorted, "parseback": parseback, "nums_exact": exact,
                   "tok_err": tok_err, "bytes": String::from_utf8_lossy(bytes), "event": ev})
        }
    }
}

/// every Unicode scalar value as member name and as string content
pub fn all_scalars(stride: u32) -> Value {
    let mut bad = vec![];
    let mut n = 0u32;
    let mut docs = 0;
    let mut cp = 0u32;
    let mut chunk: Vec<char> = vec![];
    while cp <= 0x10ffff {
        if let Some(c) = char::from_u32(cp) {
            chunk.push(c);
            n += 1;
        }
        // every code point below U+0300 (all controls, Latin-1, the escape-relevant ASCII), strided above
        cp += if cp < 0x300 { 1 } else { stride };
        if chunk.len() >= 256 || cp > 0x10ffff {
            // object whose member names are the single characters (inserted in reverse) and whose values hold them
            let mut m = serde_json::Map::new();
            for c in chunk.iter().rev() {
                m.insert(c.to_string(), json!(format!("{c}x{c}")));
            }
            // add neighbours around the UTF-16 / code point ordering difference
            m.insert("\u{ffff}".into(), json!(1));
            m.insert("\u{10000}".into(), json!(2));
            m.insert("\u{e000}".into(), json!(3));
            let val = Value::Object(m);
            match guarded(|| Json::canonicalize(&val)) {
                Ok(Ok(b)) => {
                    let back: Result<Value, _> = serde_json::from_slice(&b);
                    let mut nums = vec![];
                    let tk = tokenize(&b, &mut nums);
                    let ok = back.map(|v| v == val).unwrap_or(false) && matches!(tk, Ok((_, true)));
                    if !ok && bad.len() < 5 {
                        bad.push(json!({"from": chunk[0] as u32, "to": *chunk.last().unwrap() as u32, "tok": tk.err()}));
                    }
                }
                other => {
                    if bad.len() < 5 {
                        bad.push(json!({"from": chunk[0] as u32, "res": format!("{:?}", other.map(|r| r.map(|_| ())))}));
                    }
                }
            }
            docs += 1;
            chunk.clear();
        }
    }
    json!({"chars": n, "docs": docs, "bad": bad})
}

pub use Mode as SpellMode;

impl Mode {
    #[allow(dead_code)]
    pub fn plain() -> Mode {
        Mode { reverse: false, spaces: false, escape_all: false, slash: false }
    }
}

fn cv_of(v: &Value) -> CV {
    match v {
        Value::Null => CV::Null,
        Value::Bool(b) => CV::Bool(*b),
        Value::Number(n) => CV::Num { text: n.to_string(), exact: None },
        Value::String(s) => CV::Str(s.clone()),
        Value::Array(a) => CV::Arr(a.iter().map(cv_of).collect()),
        Value::Object(o) => CV::Obj(o.iter().map(|(k, v)| (k.clone(), cv_of(v))).collect()),
    }
}

/// a JSON value written in one of the alternative textual spellings
pub fn spell_value(v: &Value, m: Mode) -> String {
    let mut out = String::new();
    spell(&cv_of(v), m, &mut out);
    out
}
