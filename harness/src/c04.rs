//! C04: threshold verification of a signed block (Metablock.tla).
use crate::common::*;
use crate::keys::*;
use in_toto::crypto::Signature;
use in_toto::models::{Metablock, MetadataWrapper};
use rand::Rng;
use serde_json::{json, Value};
use std::collections::HashMap;

pub const NAMES: [&str; 5] = ["k1", "k2", "k3", "kx", "k5"];
/// "ku": an authorised key whose signature scheme the library does not implement (the material of k5)

pub struct Ctx {
    pub km: KeyMap,
    content: MetadataWrapper,
    /// cache: signer name -> a good signature value over `content`
    cache: HashMap<String, Vec<u8>>,
    bad_count: usize,
    /// the authorised keys as read from JSON documents that carry another key's id in their "keyid" member
    lying: HashMap<String, in_toto::crypto::PublicKey>,
}

impl Ctx {
    pub fn new(family: &str) -> Ctx {
        let mut km = KeyMap::new(family, &NAMES);
        let ku = km.unknown_scheme_twin("k5");
        km.add_public("ku", ku);
        let mut lying = HashMap::new();
        for (n, name) in NAMES.iter().enumerate() {
            let other = NAMES[(n + 1) % NAMES.len()];
            let mut v = serde_json::to_value(km.pk(name)).unwrap();
            v["keyid"] = json!(km.idstr(other));
            if let Ok(k) = serde_json::from_value::<in_toto::crypto::PublicKey>(v) {
                lying.insert(name.to_string(), k);
            }
        }
        Ctx { km, content: simple_link("c04"), cache: HashMap::new(), bad_count: 0, lying }
    }

    fn sig_value(&mut self, by: &str, fresh: bool) -> Vec<u8> {
        if !fresh {
            if let Some(v) = self.cache.get(by) {
                return v.clone();
            }
        }
        let mb = Metablock::new(self.content.clone(), &[self.km.sk(by)]).unwrap();
        let mut v = mb.signatures[0].value().as_bytes().to_vec();
        // encodings of variable length (ECDSA's DER pair of integers): the signer's standing signature is an unusually
        // SHORT one - sign again until an encoding below the common 70..72 bytes turns up (about one in a hundred)
        if !fresh && matches!(self.km.pk(by).scheme(), in_toto::crypto::SignatureScheme::EcdsaP256Sha256) {
            for _ in 0..20000 {
                if v.len() < 70 {
                    break;
                }
                let again = Metablock::new(self.content.clone(), &[self.km.sk(by)]).unwrap();
                let w = again.signatures[0].value().as_bytes().to_vec();
                if w.len() < v.len() {
                    v = w;
                }
            }
        }
        self.cache.insert(by.to_string(), v.clone());
        v
    }

    /// concrete signature list for abstract [{kid, by, ok}]
    pub fn sigs(&mut self, sigs: &Value) -> Vec<Signature> {
        let mut seen: HashMap<String, u32> = HashMap::new();
        let mut out = vec![];
        for s in sigs.as_array().unwrap() {
            let by = s["by"].as_str().unwrap();
            let n = seen.entry(by.to_string()).or_insert(0);
            *n += 1;
            // a second signature by the same key is an independent signing
            // operation (differs for randomized schemes)
            let mut v = self.sig_value(by, *n > 1);
            if !s["ok"].as_bool().unwrap() {
                self.bad_count += 1;
                // the forms an invalid signature takes, in turn: one bit flipped; empty; last byte missing;
                // all zero; a byte too long; genuine but over another content (replayed)
                let form = self.bad_count % 6;
                if form == 0 {
                    let i = v.len() / 2;
                    v[i] ^= 0x04;
                } else if form == 1 {
                    v.clear();
                } else if form == 2 {
                    v.pop();
                } else if form == 3 {
                    v.iter_mut().for_each(|b| *b = 0);
                } else if form == 4 {
                    v.push(0x01);
                } else {
                    // a genuine signature by this key over ANOTHER content - which has been verified
                    // successfully in this very process just before (a replayed signature)
                    let other = simple_link("c04-some-other-content");
                    let mb = Metablock::new(other, &[self.km.sk(by)]).unwrap();
                    let _ = guarded(|| mb.verify(1, [self.km.pk(by)]).is_ok());
                    v = mb.signatures[0].value().as_bytes().to_vec();
                }
            }
            out.push(make_sig(&self.km.idstr(s["kid"].as_str().unwrap()), &v));
        }
        out
    }

    pub fn run(&mut self, scn: &Value, all_perms: bool, want_events: bool) -> Value {
        let t = scn["t"].as_u64().unwrap();
        let t: u32 = if t >= 99 { u32::MAX } else { t as u32 };
        let auth: Vec<String> =
            scn["auth"].as_array().unwrap().iter().map(|a| a.as_str().unwrap().to_string()).collect();
        let sigs = self.sigs(&scn["sigs"]);
        let sp = if all_perms && sigs.len() <= 3 { perms(sigs.len()) } else { vec![(0..sigs.len()).collect()] };
        let ap = if all_perms && auth.len() <= 3 { perms(auth.len()) } else { vec![(0..auth.len()).collect()] };
        let mut outs: Vec<String> = vec![];
        let mut ret_ok = true;
        let mut events = vec![];
        let mut runs = 0;
        for (pi, p) in sp.iter().enumerate() {
            for (qi, q) in ap.iter().enumerate() {
                let block = Metablock {
                    signatures: p.iter().map(|&i| sigs[i].clone()).collect(),
                    metadata: self.content.clone(),
                };
                // every other scenario the authorised keys reach the verifier as JSON documents whose "keyid" member
                // names ANOTHER key: the member is not part of a key's description, its identifier is computed
                let lying = scn["i"].as_u64().unwrap_or(0) % 2 == 1;
                let keys: Vec<&in_toto::crypto::PublicKey> =
                    q.iter().map(|&i| if lying { self.lying.get(&auth[i]).unwrap_or_else(|| self.km.pk(&auth[i])) } else { self.km.pk(&auth[i]) }).collect();
                let rec = want_events && pi == 0 && qi == 0;
                if rec {
                    in_toto::verif::start_recording();
                }
                let r = guarded(|| block.verify(t, keys.iter().copied()));
                if rec {
                    for mut e in in_toto::verif::take_events() {
                        if let Some(k) = e.get("key").and_then(|k| k.as_str()) {
                            let n = self.km.name_of(k);
                            e["key"] = json!(n);
                        }
                        events.push(e);
                    }
                }
                runs += 1;
                let o = outcome(&r).to_string();
                if let Ok(Ok(m)) = &r {
                    if *m != self.content {
                        ret_ok = false;
                    }
                }
                if !outs.contains(&o) {
                    outs.push(o);
                }
            }
        }
        json!({"outs": outs, "ret_ok": ret_ok, "runs": runs, "ev": events})
    }
}

/// random abstract scenario beyond the TLC bounds
pub fn random_scn(rng: &mut impl Rng) -> Value {
    let ts = [0u64, 1, 1, 2, 2, 3, 4, 99];
    let t = ts[rng.gen_range(0..ts.len())];
    let na = rng.gen_range(0..=4);
    let auth: Vec<&str> = (0..na).map(|_| NAMES[rng.gen_range(0..NAMES.len())]).collect();
    let ns = rng.gen_range(0..=5);
    let sigs: Vec<Value> = (0..ns)
        .map(|_| {
            let by = NAMES[rng.gen_range(0..NAMES.len())];
            let kid = if rng.gen_bool(0.8) { by } else { NAMES[rng.gen_range(0..NAMES.len())] };
            json!({"kid": kid, "by": by, "ok": rng.gen_bool(0.8)})
        })
        .collect();
    json!({"m": "C04", "t": t, "auth": auth, "sigs": sigs})
}
