//! C18: artifact recording (Record.tla) on real directory trees.
use crate::common::*;
use in_toto::crypto::HashAlgorithm;
use ring::digest;
use serde_json::{json, Value};
use std::collections::HashMap;
use std::path::{Path, PathBuf};

fn content(file: &str, big: bool) -> Vec<u8> {
    let (byte, len) = match file {
        "F" => (b'F', if big { 1 << 20 } else { 1025 }),
        "F2" => (b'2', 7),
        "F3" => (b'3', if big { 1 << 20 } else { 1025 }),
        "G" => (b'G', 0),
        "DF" => (b'd', 1024),
        "DH" => (b'h', 3000),
        _ => (b'?', 1),
    };
    vec![byte; len]
}

/// name class applied to every path component (plain, with space, non-ASCII, leading dot)
fn rename(name: &str, class: usize) -> String {
    // the file "g" is concretely called like the file "f" with something appended (siblings one of whose names
    // is the beginning of the other's), the directory "e" like the directory "d"
    let name = match name {
        "g" => "f-2",
        "e" => "d2",
        other => other,
    };
    match class % 4 {
        0 => name.to_string(),
        1 => format!("{name} x"),
        2 => format!("{name}\u{e9}\u{4e2d}"),
        _ => format!(".{name}"),
    }
}

fn map_path(p: &str, class: usize) -> String {
    p.split('/').map(|c| if c.is_empty() { String::new() } else { rename(c, class) }).collect::<Vec<_>>().join("/")
}

fn unmap_path(p: &str, class: usize) -> String {
    p.split('/')
        .map(|c| match class % 4 {
            0 => c.to_string(),
            1 => c.strip_suffix(" x").unwrap_or(c).to_string(),
            2 => c.strip_suffix("\u{e9}\u{4e2d}").unwrap_or(c).to_string(),
            _ => c.strip_prefix('.').unwrap_or(c).to_string(),
        })
        .map(|c| match c.as_str() {
            "f-2" => "g".to_string(),
            "d2" => "e".to_string(),
            _ => c,
        })
        .collect::<Vec<_>>()
        .join("/")
}

fn link_target(root: &Path, from_dir: &str, target: &str, flavour: &str, class: usize) -> PathBuf {
    // absolute location of every node
    let abs = |node: &str| -> PathBuf {
        let rel = match node {
            "T" => "t",
            "D" => "t/d",
            "E" => "t/e",
            "F" => "t/f",
            "G" => "t/g",
            "DF" => "t/d/f",
            "DH" => "t/d/h",
            "L2" => "t/d/l2",
            _ => "t/nothing",
        };
        root.join(map_path(rel, class))
    };
    if flavour == "abs" {
        return abs(target);
    }
    // relative to the directory holding the link
    let rel = match (from_dir, target) {
        ("T", "T") => ".".to_string(),
        ("T", "D") => "d".into(),
        ("T", "E") => "e".into(),
        ("T", "F") => "f".into(),
        ("T", "G") => "g".into(),
        ("T", "DF") => "d/f".into(),
        ("T", "DH") => "d/h".into(),
        ("T", "L2") => "d/l2".into(),
        ("D", "T") => "..".into(),
        ("D", "G") => "../g".into(),
        ("D", "F") => "../f".into(),
        ("D", "DH") => "h".into(),
        ("D", "DF") => "f".into(),
        (_, _) => "nothing".into(),
    };
    PathBuf::from(
        rel.split('/').map(|c| if c == "." || c == ".." { c.to_string() } else { rename(c, class) }).collect::<Vec<_>>().join("/"),
    )
}

fn build_tree(root: &Path, fs: &Value, flav: &Value, class: usize, big: bool) {
    let p = |rel: &str| root.join(map_path(rel, class));
    std::fs::create_dir_all(p("t")).unwrap();
    let b = |k: &str| fs[k].as_bool().unwrap_or(false);
    if b("f") {
        std::fs::write(p("t/f"), content("F", big)).unwrap();
    }
    if b("g") {
        std::fs::write(p("t/g"), content("G", big)).unwrap();
    }
    if b("d") {
        std::fs::create_dir_all(p("t/d")).unwrap();
        if b("df") {
            std::fs::write(p("t/d/f"), content("DF", big)).unwrap();
        }
        if b("dh") {
            std::fs::write(p("t/d/h"), content("DH", big)).unwrap();
        }
    }
    if b("e") {
        std::fs::create_dir_all(p("t/e")).unwrap();
    }
    let l1 = fs["l1"].as_str().unwrap();
    if l1 != "none" {
        std::os::unix::fs::symlink(link_target(root, "T", l1, flav["l1"].as_str().unwrap(), class), p("t/l1")).unwrap();
    }
    let l2 = fs["l2"].as_str().unwrap();
    if l2 != "none" && b("d") {
        std::os::unix::fs::symlink(link_target(root, "D", l2, flav["l2"].as_str().unwrap(), class), p(if fs["l2g"] == true { "t/d/g" } else { "t/d/l2" })).unwrap();
    }
}

fn hexd(alg: &'static digest::Algorithm, data: &[u8]) -> String {
    data_encoding::HEXLOWER.encode(digest::digest(alg, data).as_ref())
}

/// identify each recorded entry by the digest of the file it must be, checking every requested algorithm
fn entries_of(map: &std::collections::BTreeMap<in_toto::models::VirtualTargetPath, in_toto::models::TargetDescription>,
              algs: &[&str], class: usize, big: bool) -> (Vec<Value>, bool) {
    // (algorithm, digest) -> file: a digest filed under the wrong algorithm identifies nothing
    let mut table: HashMap<(&str, String), &str> = HashMap::new();
    for f in ["F", "F2", "F3", "G", "DF", "DH"] {
        table.insert(("sha256", hexd(&digest::SHA256, &content(f, big))), f);
        table.insert(("sha512", hexd(&digest::SHA512, &content(f, big))), f);
    }
    let distinct_algs: std::collections::BTreeSet<&str> = algs.iter().copied().collect();
    let mut out = vec![];
    let mut ok = true;
    for (k, t) in map {
        let mut ids = vec![];
        for a in algs {
            let ha = if *a == "sha256" { HashAlgorithm::Sha256 } else { HashAlgorithm::Sha512 };
            match t.get(&ha) {
                Some(h) => ids.push(table.get(&(*a, data_encoding::HEXLOWER.encode(h.value()))).copied().unwrap_or("?")),
                None => {
                    ok = false;
                    ids.push("missing-alg")
                }
            }
        }
        if t.len() != distinct_algs.len() || ids.iter().any(|x| *x != ids[0]) || ids[0] == "?" {
            ok = false;
        }
        out.push(json!({"key": unmap_path(k.value(), class), "file": ids.first().copied().unwrap_or("?")}));
    }
    (out, ok)
}

pub fn run(scn: &Value) -> Value {
    let i = scn["i"].as_u64().unwrap_or(0) as usize;
    let class = (i + seed() as usize) % 4;
    let big = i % 97 == 0;
    // selections of hash algorithms: single, both in either order, with a repetition
    let algsets: [&[&str]; 6] = [&["sha256"], &["sha512"], &["sha256", "sha512"], &["sha512", "sha256"], &["sha256", "sha256", "sha512"], &["sha512", "sha512"]];
    let algs = algsets[(i / 4 + seed() as usize) % 6];
    let tmp = tempfile::tempdir().unwrap();
    let root = tmp.path().canonicalize().unwrap();
    build_tree(&root, &scn["fs"], &scn["flav"], class, big);
    let old = std::env::current_dir().ok();
    std::env::set_current_dir(&root).unwrap();
    // non-normalised spelling of the arguments now and then
    let args: Vec<String> = scn["args"].as_array().unwrap().iter().enumerate().map(|(n, a)| {
        let m = map_path(a.as_str().unwrap(), class);
        match (i + n) % 3 {
            0 => m,
            1 => format!("./{m}"),
            _ => format!("{m}/."),
        }
    }).collect();
    let strips: Vec<String> = scn["strips"].as_array().unwrap().iter().map(|a| map_path(a.as_str().unwrap(), class)).collect();
    let argrefs: Vec<&str> = args.iter().map(|s| s.as_str()).collect();
    let striprefs: Vec<&str> = strips.iter().map(|s| s.as_str()).collect();
    let lstrip: Option<&[&str]> = if striprefs.is_empty() { None } else { Some(&striprefs) };
    let res;
    if scn["cmd"] == "norun" {
        // the specification's result does not depend on the ORDER of the strip prefixes: try every order
        let mut results: Vec<Value> = vec![];
        for perm in perms(striprefs.len().min(3)) {
            let ordered: Vec<&str> = perm.iter().map(|&k| striprefs[k]).collect();
            let ls: Option<&[&str]> = if ordered.is_empty() { None } else { Some(&ordered) };
            in_toto::verif::start_recording();
            let r = guarded(|| in_toto::runlib::record_artifacts(&argrefs, Some(algs), ls));
            let ev = in_toto::verif::take_events();
            results.push(match r {
                Ok(Ok(map)) => {
                    let (entries, dig_ok) = entries_of(&map, algs, class, big);
                    json!({"out": "ok", "entries": entries, "digests_ok": dig_ok, "events": ev.len()})
                }
                Ok(Err(e)) => json!({"out": "err", "msg": e.to_string()}),
                Err(p) => json!({"out": "panic", "msg": p}),
            });
        }
        // the same tree recorded from INSIDE the directory: the argument "." (spelt in several ways) without strip
        // prefix denotes what the argument "t" with the strip prefix "t/" denotes
        let mut dot_differs: Option<Value> = None;
        if scn["args"] == json!(["t"]) && scn["strips"] == json!(["t/"]) {
            let inside = root.join(map_path("t", class));
            if std::env::set_current_dir(&inside).is_ok() {
                let has_d = scn["fs"]["d"] == true;
                let d_name = map_path("t/d", class);
                let d_last = d_name.rsplit('/').next().unwrap_or("d").to_string();
                let mut spellings = vec![".".to_string(), "./".to_string(), "./.".to_string()];
                if has_d {
                    spellings.push(format!("{d_last}/.."));
                }
                let sp = &spellings[i % spellings.len()];
                let r = guarded(|| in_toto::runlib::record_artifacts(&[sp.as_str()], Some(algs), None));
                let got = match r {
                    Ok(Ok(map)) => {
                        let (entries, dig_ok) = entries_of(&map, algs, class, big);
                        json!({"out": "ok", "entries": entries, "digests_ok": dig_ok})
                    }
                    Ok(Err(e)) => json!({"out": "err", "msg": e.to_string()}),
                    Err(p) => json!({"out": "panic", "msg": p}),
                };
                if got["out"] != results[0]["out"] || got["entries"] != results[0]["entries"] {
                    dot_differs = Some(json!({"argument": sp, "got": got}));
                }
                std::env::set_current_dir(&root).unwrap();
            }
        }
        // the same paths recorded AGAIN in the same process after the file t/f was given other bytes of the same
        // length, its modification time put back: the second recording reports the new content wherever the first
        // reported the old one, and is otherwise the same
        let mut stale: Option<Value> = None;
        let f_path = root.join(map_path("t/f", class));
        if scn["fs"]["f"] == true && results[0]["out"] == "ok" {
            if let Ok(meta) = std::fs::metadata(&f_path) {
                let mtime = meta.modified().ok();
                std::fs::write(&f_path, content("F3", big)).unwrap();
                if let (Some(t), Ok(fh)) = (mtime, std::fs::File::options().write(true).open(&f_path)) {
                    let _ = fh.set_modified(t);
                }
                let r = guarded(|| in_toto::runlib::record_artifacts(&argrefs, Some(algs), lstrip));
                let mut want = results[0]["entries"].clone();
                for e in want.as_array_mut().unwrap() {
                    if e["file"] == "F" {
                        e["file"] = json!("F3");
                    }
                }
                let got = match r {
                    Ok(Ok(map)) => {
                        let (entries, dig_ok) = entries_of(&map, algs, class, big);
                        json!({"out": "ok", "entries": entries, "digests_ok": dig_ok})
                    }
                    Ok(Err(e)) => json!({"out": "err", "msg": e.to_string()}),
                    Err(p) => json!({"out": "panic", "msg": p}),
                };
                if got["out"] != "ok" || got["entries"] != want {
                    stale = Some(json!({"got": got, "want": want}));
                }
            }
        }
        // report the first result that differs from the first order (if any), else the first
        let mut first = results[0].clone();
        if let Some(d) = dot_differs {
            first["dot_root_differs"] = d;
        }
        if let Some(d) = stale {
            first["second_recording_differs"] = d;
        }
        let differing = results.iter().find(|r| r["out"] != first["out"] || r["entries"] != first["entries"]).cloned();
        res = match differing {
            Some(d) => {
                let mut d = d;
                d["order_dependent"] = json!(true);
                d
            }
            None => first,
        };
    } else {
        let t = |rel: &str| map_path(rel, class);
        let script = match scn["cmd"].as_str().unwrap() {
            "create_g" => format!(": > '{}'", t("t/g")),
            "delete_f" => format!("rm -f '{}'", t("t/f")),
            "modify_f" => format!("if [ -e '{0}' ]; then printf 2222222 > '{0}'; fi", t("t/f")),
            // same length, other bytes, modification time restored (the reference file lies outside the recorded tree)
            "rewrite_f" => format!(
                "if [ -e '{0}' ]; then touch -r '{0}' '{1}'; head -c {2} /dev/zero | tr '\\0' 3 > '{0}'; touch -r '{1}' '{0}'; rm -f '{1}'; fi",
                t("t/f"),
                root.join("stamp").display(),
                content("F3", big).len()
            ),
            "create_in_d" => format!("mkdir -p '{}'; head -c 3000 /dev/zero | tr '\\0' h > '{}'", t("t/d"), t("t/d/h")),
            _ => "true".to_string(),
        };
        let code = (i % 3) as i32 * 7;
        // the streams, in several shapes: plain lines; CR LF line ends and a lone CR; no final newline, tabs,
        // trailing blanks and non-ASCII text
        let (out_txt, err_txt): (&str, &str) = match i % 3 {
            0 => ("out-line\n", "err-line\n"),
            1 => ("HTTP/1.1 200 OK\r\n\r\nbody\rover\n", "warn\r\n"),
            _ => ("tab\there  \n\u{e9}\u{4e2d} no newline", "  e\n\n"),
        };
        let oct = |t: &str| t.bytes().map(|b| format!("\\{:03o}", b)).collect::<String>();
        let full = format!("{script}; printf '{}'; printf '{}' >&2; exit {code}", oct(out_txt), oct(err_txt));
        let cmd = ["sh", "-c", full.as_str()];
        let r = guarded(|| in_toto::runlib::in_toto_run("stepname", None, &argrefs, &argrefs, &cmd, None, Some(algs), lstrip));
        res = match r {
            Ok(Ok(mb)) => match &mb.metadata {
                in_toto::models::MetadataWrapper::Link(l) => {
                    let (m, d1) = entries_of(&l.materials, algs, class, big);
                    let (p, d2) = entries_of(&l.products, algs, class, big);
                    let byp_ok = l.byproducts.stdout().as_deref() == Some(out_txt)
                        && l.byproducts.stderr().as_deref() == Some(err_txt)
                        && l.byproducts.return_value() == Some(code);
                    json!({"out": "ok", "entries": m, "after": p, "digests_ok": d1 && d2, "byproducts_ok": byp_ok, "name_ok": l.name == "stepname",
                           "unsigned": mb.signatures.is_empty()})
                }
                _ => json!({"out": "layout?"}),
            },
            Ok(Err(e)) => json!({"out": "err", "msg": e.to_string()}),
            Err(p) => json!({"out": "panic", "msg": p}),
        };
    }
    if let Some(o) = old {
        let _ = std::env::set_current_dir(o);
    }
    let mut res = res;
    res["class"] = json!(class);
    res["algs"] = json!(algs);
    res
}
