//! C12: key identity (KeyId.tla).
use crate::keys;
use crate::olpc::olpc_bytes;
use crate::verify::sha256_hex;
use serde_json::{json, Value};

/// the independently assembled description whose sha256 is the key id
pub fn reference_description(keytype: &str, scheme: &str, halgs: bool, public: &str) -> Value {
    reference_description_h(keytype, scheme, if halgs { "default" } else { "absent" }, public)
}

/// hash-algorithm list: "absent" (no member), "default" (sha256, sha512), "empty" (the member is an empty list)
pub fn reference_description_h(keytype: &str, scheme: &str, halgs: &str, public: &str) -> Value {
    let mut d = json!({"keytype": keytype, "scheme": scheme, "keyval": {"public": public}});
    match halgs {
        "default" => d["keyid_hash_algorithms"] = json!(["sha256", "sha512"]),
        "empty" => d["keyid_hash_algorithms"] = json!([]),
        _ => {}
    }
    d
}

pub fn pem_of_spki(der: &[u8]) -> String {
    let b64 = data_encoding::BASE64.encode(der);
    let mut s = String::from("-----BEGIN PUBLIC KEY-----\n");
    for chunk in b64.as_bytes().chunks(64) {
        s.push_str(std::str::from_utf8(chunk).unwrap());
        s.push('\n');
    }
    s.push_str("-----END PUBLIC KEY-----");
    s
}

/// type and scheme names of a key, from its own (typed) accessors - not from its JSON form
pub fn key_type_scheme(k: &PublicKey) -> (&'static str, &'static str) {
    use in_toto::crypto::KeyType;
    let t = match k.typ() {
        KeyType::Ed25519 => "ed25519",
        KeyType::Rsa => "rsa",
        KeyType::Ecdsa => "ecdsa",
        _ => "unknown",
    };
    let s = match k.scheme() {
        SignatureScheme::Ed25519 => "ed25519",
        SignatureScheme::EcdsaP256Sha256 => "ecdsa-sha2-nistp256",
        SignatureScheme::RsaSsaPssSha256 => "rsassa-pss-sha256",
        SignatureScheme::RsaSsaPssSha512 => "rsassa-pss-sha512",
        _ => "unknown",
    };
    (t, s)
}

pub fn type_scheme(family: &str) -> (&'static str, &'static str) {
    match family {
        "ed25519" => ("ed25519", "ed25519"),
        "ecdsa" => ("ecdsa", "ecdsa-sha2-nistp256"),
        "rsa2048-256" | "rsa4096-256" => ("rsa", "rsassa-pss-sha256"),
        _ => ("rsa", "rsassa-pss-sha512"),
    }
}

pub fn public_field(family: &str, pk: &in_toto::crypto::PublicKey) -> String {
    match family {
        "ed25519" | "ecdsa" => data_encoding::HEXLOWER.encode(pk.as_bytes()),
        _ => pem_of_spki(&rsa_spki(pk.as_bytes())),
    }
}

fn der_len(n: usize) -> Vec<u8> {
    if n < 0x80 {
        vec![n as u8]
    } else if n < 0x100 {
        vec![0x81, n as u8]
    } else {
        vec![0x82, (n >> 8) as u8, n as u8]
    }
}

fn der(tag: u8, body: &[u8]) -> Vec<u8> {
    let mut v = vec![tag];
    v.extend(der_len(body.len()));
    v.extend(body);
    v
}

/// standard SubjectPublicKeyInfo templates (RFC 8410, RFC 5480, RFC 3279)
pub fn rsa_spki(pkcs1: &[u8]) -> Vec<u8> {
    let alg = der(0x30, &[der(0x06, &[0x2a, 0x86, 0x48, 0x86, 0xf7, 0x0d, 0x01, 0x01, 0x01]), vec![0x05, 0x00]].concat());
    let mut bits = vec![0u8];
    bits.extend(pkcs1);
    der(0x30, &[alg, der(0x03, &bits)].concat())
}

pub fn ed25519_spki(raw: &[u8]) -> Vec<u8> {
    let alg = der(0x30, &der(0x06, &[0x2b, 0x65, 0x70]));
    let mut bits = vec![0u8];
    bits.extend(raw);
    der(0x30, &[alg, der(0x03, &bits)].concat())
}

pub fn ecdsa_spki(point: &[u8]) -> Vec<u8> {
    let alg = der(
        0x30,
        &[der(0x06, &[0x2a, 0x86, 0x48, 0xce, 0x3d, 0x02, 0x01]), der(0x06, &[0x2a, 0x86, 0x48, 0xce, 0x3d, 0x03, 0x01, 0x07])].concat(),
    );
    let mut bits = vec![0u8];
    bits.extend(point);
    der(0x30, &[alg, der(0x03, &bits)].concat())
}

/// key id of every fixture key == sha256(reference rendering of its description)
pub fn keyid_preimages() -> Value {
    let mut bad = vec![];
    let mut n = 0;
    for fam in keys::FAMILIES {
        for i in 0..keys::family_size(fam) {
            let sk = keys::load(fam, i);
            let pk = sk.public();
            let (kt, sch) = type_scheme(fam);
            let d = reference_description(kt, sch, true, &public_field(fam, pk));
            let want = sha256_hex(&olpc_bytes(&d));
            let got = keys::kid_str(pk.key_id());
            n += 1;
            if want != got {
                bad.push(json!({"family": fam, "idx": i, "want": want, "got": got}));
            }
            // the same material under every hash-algorithm-list variant the API can express
            if fam == "ed25519" || fam == "ecdsa" {
                let raw = pk.as_bytes().to_vec();
                let variants: [(&str, Option<Vec<String>>); 3] =
                    [("absent", None), ("empty", Some(vec![])), ("default", Some(vec!["sha256".to_string(), "sha512".to_string()]))];
                for (name, list) in variants {
                    let k = if fam == "ed25519" {
                        PublicKey::from_ed25519_with_keyid_hash_algorithms(raw.clone(), list)
                    } else {
                        PublicKey::from_ecdsa_with_keyid_hash_algorithms(raw.clone(), list)
                    };
                    let k = match k {
                        Ok(k) => k,
                        Err(e) => {
                            bad.push(json!({"family": fam, "idx": i, "variant": name, "error": e.to_string()}));
                            continue;
                        }
                    };
                    let want = sha256_hex(&olpc_bytes(&reference_description_h(kt, sch, name, &public_field(fam, pk))));
                    let got = keys::kid_str(k.key_id());
                    n += 1;
                    if want != got {
                        bad.push(json!({"family": fam, "idx": i, "variant": name, "want": want, "got": got}));
                    }
                    // ... and after a JSON trip
                    let back: Result<PublicKey, _> = serde_json::from_str(&serde_json::to_string(&k).unwrap());
                    match back {
                        Ok(b) if keys::kid_str(b.key_id()) == want && b == k => {}
                        other => bad.push(json!({"family": fam, "idx": i, "variant": name, "json_trip": format!("{:?}", other.map(|b| keys::kid_str(b.key_id())))})),
                    }
                }
            }
        }
    }
    json!({"n": n, "bad": bad})
}

use crate::common::*;
use in_toto::crypto::{KeyId, PrivateKey, PublicKey, SignatureScheme};
use in_toto::models::{LayoutMetadata, Metablock, MetadataWrapper};
use std::collections::HashMap;
use std::str::FromStr;

fn scheme_of(s: &str) -> SignatureScheme {
    match s {
        "ed25519" => SignatureScheme::Ed25519,
        "ecdsa-sha2-nistp256" => SignatureScheme::EcdsaP256Sha256,
        "rsassa-pss-sha256" => SignatureScheme::RsaSsaPssSha256,
        _ => SignatureScheme::RsaSsaPssSha512,
    }
}

pub fn standard_spki(typ: &str, material: &[u8]) -> Vec<u8> {
    match typ {
        "ed25519" => ed25519_spki(material),
        "ecdsa" => ecdsa_spki(material),
        _ => rsa_spki(material),
    }
}

fn expected_id(typ: &str, scheme: &str, halgs: bool, material: &[u8]) -> String {
    expected_id_h(typ, scheme, if halgs { "default" } else { "absent" }, material)
}

fn expected_id_h(typ: &str, scheme: &str, halgs: &str, material: &[u8]) -> String {
    let public = match typ {
        "rsa" => pem_of_spki(&rsa_spki(material)),
        _ => data_encoding::HEXLOWER.encode(material),
    };
    sha256_hex(&olpc_bytes(&reference_description_h(typ, scheme, halgs, &public)))
}

/// public key material of a PKCS#8 private key as ring sees it: raw 32 bytes (ed25519), the uncompressed
/// point (P-256), DER RSAPublicKey (RSA)
pub fn independent_public(typ: &str, pkcs8: &[u8]) -> Option<Vec<u8>> {
    use ring::signature::KeyPair;
    match typ {
        "ed25519" => ring::signature::Ed25519KeyPair::from_pkcs8(pkcs8).ok().map(|k| k.public_key().as_ref().to_vec()),
        "ecdsa" => {
            let rng = ring::rand::SystemRandom::new();
            ring::signature::EcdsaKeyPair::from_pkcs8(&ring::signature::ECDSA_P256_SHA256_ASN1_SIGNING, pkcs8, &rng).ok().map(|k| k.public_key().as_ref().to_vec())
        }
        _ => ring::signature::RsaKeyPair::from_pkcs8(pkcs8).ok().map(|k| k.public_key().as_ref().to_vec()),
    }
}

/// run one construction path on every fixture key of the type
pub fn run_path(scn: &Value) -> Value {
    let typ = scn["typ"].as_str().unwrap();
    let fams: Vec<&str> = match typ {
        "ed25519" => vec!["ed25519"],
        "ecdsa" => vec!["ecdsa"],
        _ => vec!["rsa2048-256", "rsa4096-256"],
    };
    let mut problems = vec![];
    let mut n = 0;
    // subjects: every fixture key pair of the type, and - for RSA - a public key of the largest supported size
    // (8192 bits; only its public half is a fixture, the library cannot hold private keys of that size)
    let mut subjects: Vec<(&str, usize, Option<&'static [u8]>)> = vec![];
    for fam in &fams {
        for idx in 0..keys::family_size(fam) {
            subjects.push((fam, idx, Some(keys::raw_der(fam, idx))));
        }
    }
    let starts_private = matches!(scn["path"][0].as_str(), Some("private") | Some("generated"));
    if typ == "rsa" && !starts_private {
        for n in 0..keys::RSA_PUBLIC_ONLY.len() {
            subjects.push(("rsa2048-256", 100 + n, None));
        }
    }
    for (fam, idx, der_opt) in subjects {
        {
            n += 1;
            let der: &[u8] = der_opt.unwrap_or(&[]);
            let mut generated: Option<Vec<u8>> = None;
            // the public key material, derived from the private key WITHOUT the library (ring only)
            let mut material = match der_opt {
                None => keys::RSA_PUBLIC_ONLY[idx - 100].0.to_vec(),
                Some(d) => match independent_public(typ, d) {
                    Some(m) => m,
                    None => {
                        problems.push(json!({"family": fam, "idx": idx, "harness": "cannot derive the public key independently"}));
                        continue;
                    }
                },
            };
            if der_opt.is_none() && standard_spki(typ, &material) != keys::RSA_PUBLIC_ONLY[idx - 100].1 {
                problems.push(json!({"harness": "SPKI template disagrees with the openssl-made SPKI of a public-only key"}));
            }
            let mut std_spki = standard_spki(typ, &material);
            // a path that starts from a freshly generated key pair works on that key's material
            if scn["path"][0] == "generated" {
                let kt = if typ == "ed25519" { in_toto::crypto::KeyType::Ed25519 } else { in_toto::crypto::KeyType::Ecdsa };
                if let Ok(Ok(der)) = guarded(|| PrivateKey::new(kt)) {
                    if let Some(m) = independent_public(typ, &der) {
                        material = m;
                        std_spki = standard_spki(typ, &material);
                        generated = Some(der);
                    }
                }
            }
            let mut cur: Option<PublicKey> = None;
            let mut scheme = SignatureScheme::Ed25519;
            let mut scheme_s = String::new();
            let mut halgs = true;
            let mut halgs_empty = false;
            for (step, op) in scn["path"].as_array().unwrap().iter().enumerate() {
                let op = op.as_str().unwrap();
                let r: Result<Result<PublicKey, String>, String> = guarded(|| match op {
                    "generated" => {
                        scheme_s = type_scheme(fam).1.to_string();
                        scheme = scheme_of(&scheme_s);
                        halgs = true;
                        match &generated {
                            Some(der) => PrivateKey::from_pkcs8(der, scheme.clone()).map(|k| k.public().clone()).map_err(|e| e.to_string()),
                            None => Err("key generation failed".to_string()),
                        }
                    }
                    "private" => {
                        scheme_s = type_scheme(fam).1.to_string();
                        scheme = scheme_of(&scheme_s);
                        halgs = true;
                        PrivateKey::from_pkcs8(der, scheme.clone()).map(|k| k.public().clone()).map_err(|e| e.to_string())
                    }
                    "raw" => {
                        scheme_s = type_scheme(fam).1.to_string();
                        scheme = scheme_of(&scheme_s);
                        halgs = false;
                        if typ == "ed25519" {
                            PublicKey::from_ed25519(material.clone()).map_err(|e| e.to_string())
                        } else {
                            PublicKey::from_ecdsa(material.clone()).map_err(|e| e.to_string())
                        }
                    }
                    "raw_empty" => {
                        scheme_s = type_scheme(fam).1.to_string();
                        scheme = scheme_of(&scheme_s);
                        halgs = true;
                        halgs_empty = true;
                        if typ == "ed25519" {
                            PublicKey::from_ed25519_with_keyid_hash_algorithms(material.clone(), Some(vec![])).map_err(|e| e.to_string())
                        } else {
                            PublicKey::from_ecdsa_with_keyid_hash_algorithms(material.clone(), Some(vec![])).map_err(|e| e.to_string())
                        }
                    }
                    "raw_halgs" => {
                        scheme_s = "ed25519".into();
                        scheme = SignatureScheme::Ed25519;
                        halgs = true;
                        PublicKey::from_ed25519_with_keyid_hash_algorithms(material.clone(), Some(vec!["sha256".into(), "sha512".into()]))
                            .map_err(|e| e.to_string())
                    }
                    "spki" | "spki512" | "pem" => {
                        scheme_s = if op == "spki512" { "rsassa-pss-sha512".to_string() } else { type_scheme(fam).1.to_string() };
                        scheme = scheme_of(&scheme_s);
                        halgs = true;
                        if op == "pem" {
                            // the same armour in several textual spellings: all must give the same key
                            let base = pem_of_spki(&std_spki);
                            let spellings = [base.clone(), format!("{base}\n"), base.replace('\n', "\r\n"), format!("\n{base}\n\n")];
                            let mut first: Option<PublicKey> = None;
                            let mut res: Result<PublicKey, String> = Err("no spelling".into());
                            for (n, sp) in spellings.iter().enumerate() {
                                match PublicKey::from_pem_spki(sp, scheme.clone()) {
                                    Ok(k) => {
                                        if let Some(f) = &first {
                                            if *f != k {
                                                res = Err(format!("PEM spelling {n} gives another key"));
                                                break;
                                            }
                                        } else {
                                            first = Some(k.clone());
                                        }
                                        res = Ok(k);
                                    }
                                    Err(e) => {
                                        res = Err(format!("PEM spelling {n} rejected: {e}"));
                                        break;
                                    }
                                }
                            }
                            res
                        } else {
                            PublicKey::from_spki(&std_spki, scheme.clone()).map_err(|e| e.to_string())
                        }
                    }
                    "json" => {
                        let v = serde_json::to_value(cur.as_ref().unwrap()).map_err(|e| e.to_string())?;
                        serde_json::from_value::<PublicKey>(v).map_err(|e| e.to_string())
                    }
                    "jsontext" => {
                        let t = serde_json::to_string_pretty(cur.as_ref().unwrap()).map_err(|e| e.to_string())?;
                        serde_json::from_str::<PublicKey>(&t).map_err(|e| e.to_string())
                    }
                    "respki" => {
                        halgs = true;
                        let der = cur.as_ref().unwrap().as_spki().map_err(|e| e.to_string())?;
                        PublicKey::from_spki(&der, scheme.clone()).map_err(|e| e.to_string())
                    }
                    o => Err(format!("unknown op {o}")),
                });
                let k = match r {
                    Ok(Ok(k)) => k,
                    Ok(Err(e)) => {
                        problems.push(json!({"family": fam, "idx": idx, "step": step, "op": op, "error": e}));
                        break;
                    }
                    Err(p) => {
                        problems.push(json!({"family": fam, "idx": idx, "step": step, "op": op, "panic": p}));
                        break;
                    }
                };
                // a re-import from SubjectPublicKeyInfo gives the importer's default list
                if op == "respki" {
                    halgs_empty = false;
                }
                let want = expected_id_h(typ, &scheme_s, if halgs_empty { "empty" } else if halgs { "default" } else { "absent" }, &material);
                if keys::kid_str(k.key_id()) != want {
                    problems.push(json!({"family": fam, "idx": idx, "step": step, "op": op, "id": keys::kid_str(k.key_id()), "want": want}));
                }
                if k.as_bytes() != material.as_slice() {
                    problems.push(json!({"family": fam, "idx": idx, "step": step, "op": op, "material_changed": true}));
                }
                if matches!(op, "json" | "jsontext") && cur.as_ref() != Some(&k) {
                    problems.push(json!({"family": fam, "idx": idx, "step": step, "op": op, "json_round_trip_changed_key": true}));
                }
                cur = Some(k);
            }
            if let Some(k) = &cur {
                match guarded(|| k.as_spki()) {
                    Ok(Ok(d)) if d == std_spki => {}
                    other => problems.push(json!({"family": fam, "idx": idx, "export_differs_from_standard_spki": format!("{:?}", other.map(|r| r.map(|d| data_encoding::HEXLOWER.encode(&d[..d.len().min(24)]))))})),
                }
            }
        }
    }
    json!({"out": if problems.is_empty() { "ok" } else { "bad" }, "problems": problems.into_iter().take(4).collect::<Vec<_>>(), "keys": n})
}

/// key tables with entries filed under their own, another key's, or a foreign id
pub fn run_table(scn: &Value, family: &str) -> Value {
    let mut km = keys::KeyMap::new(family, &["k1", "k2", "k3", "o1"]);
    let mut problems = vec![];
    let no_halgs = scn["halgs"] == "absent" && family == "ed25519";
    // the same material described without a hash-algorithm list is another key (another id); the private
    // halves stay usable for signing because the signature is relabelled below
    let pubkey = |km: &keys::KeyMap, k: &str| -> PublicKey {
        if no_halgs {
            PublicKey::from_ed25519(km.pk(k).as_bytes().to_vec()).unwrap()
        } else {
            km.pk(k).clone()
        }
    };
    let idof = |km: &keys::KeyMap, k: &str| -> String { keys::kid_str(pubkey(km, k).key_id()) };
    let _ = &mut km;
    // the keys object, as text, possibly with colliding member names
    let mut members: Vec<(String, Value)> = vec![];
    let filed_id = |k: &str, filing: &str| -> Option<String> {
        match filing {
            "absent" => None,
            "own" => Some(idof(&km, k)),
            "foreign" => Some(sha256_hex(format!("foreign-{k}").as_bytes())),
            other => Some(idof(&km, other)),
        }
    };
    for k in ["k1", "k2", "k3"] {
        if let Some(id) = filed_id(k, scn["table"][k].as_str().unwrap()) {
            let mut kj = serde_json::to_value(pubkey(&km, k)).unwrap();
            match scn["embed"].as_str().unwrap_or("own") {
                "filed" => kj["keyid"] = json!(id),
                "absent" => {
                    kj.as_object_mut().unwrap().remove("keyid");
                }
                _ => {}
            }
            members.push((id, kj));
        }
    }
    let keys_text = format!("{{{}}}", members.iter().map(|(id, v)| format!("{}:{}", json!(id), v)).collect::<Vec<_>>().join(","));
    let layout_text = format!(
        r#"{{"_type":"layout","expires":"2099-01-01T00:00:00Z","readme":"","keys":{},"steps":[{{"_type":"step","name":"s1","threshold":1,"expected_materials":[],"expected_products":[],"pubkeys":[{}],"expected_command":[]}}],"inspect":[]}}"#,
        keys_text,
        ["k1", "k2", "k3"].iter().map(|k| json!(idof(&km, k)).to_string()).collect::<Vec<_>>().join(",")
    );
    let parsed: Result<LayoutMetadata, _> = serde_json::from_str(&layout_text);
    let layout = match parsed {
        Ok(l) => l,
        Err(e) => return json!({"out": "bad", "problems": [{"layout_does_not_parse": e.to_string()}]}),
    };
    for (id, key) in &layout.keys {
        // the intrinsic id, recomputed independently from the material
        // (a family with fewer than three keys is completed with ed25519 keys: describe the key itself)
        let (kt, sch) = key_type_scheme(key);
        let intrinsic = expected_id(kt, sch, !no_halgs, key.as_bytes());
        if keys::kid_str(id) != intrinsic {
            problems.push(json!({"table_maps_id_to_key_with_other_intrinsic_id": keys::kid_str(id), "intrinsic": intrinsic}));
        }
        if key.key_id() != id {
            problems.push(json!({"table_maps_id_to_other_key": keys::kid_str(id), "key": keys::kid_str(key.key_id())}));
        }
    }
    // keys filed under their own id, whose id no other entry claims, must survive
    for k in ["k1", "k2", "k3"] {
        let own = scn["table"][k] == "own";
        let claimed_by_other = ["k1", "k2", "k3"].iter().any(|o| *o != k && scn["table"][*o] == k);
        let present = layout.keys.contains_key(&KeyId::from_str(&idof(&km, k)).unwrap());
        if own && !claimed_by_other && !present {
            problems.push(json!({"own_entry_dropped": k}));
        }
        if !own && !claimed_by_other && present {
            problems.push(json!({"entry_appeared": k}));
        }
    }
    // end to end: a link for s1 signed by an alias key, labelled with the id it was filed under, must not count
    let mut e2e = 0;
    for k in ["k1", "k2", "k3"] {
        let filing = scn["table"][k].as_str().unwrap();
        if !["k1", "k2", "k3"].contains(&filing) || scn["table"][filing] != "absent" {
            continue;
        }
        e2e += 1;
        let tmp = tempfile::tempdir().unwrap();
        let dir = tmp.path().canonicalize().unwrap();
        let link = simple_link("s1");
        let mb = Metablock::new(link, &[km.sk(k)]).unwrap();
        let relabelled = Metablock {
            signatures: vec![keys::make_sig(&idof(&km, filing), mb.signatures[0].value().as_bytes())],
            metadata: mb.metadata.clone(),
        };
        std::fs::write(dir.join(format!("s1.{}.link", &idof(&km, filing)[0..8])), serde_json::to_string(&relabelled).unwrap()).unwrap();
        let signed_layout = Metablock::new(MetadataWrapper::Layout(layout.clone()), &[km.sk("o1")]).unwrap();
        let mut val = serde_json::to_value(&signed_layout).unwrap();
        val["signed"] = serde_json::from_str(&layout_text).unwrap();
        let shipped: Result<Metablock, _> = serde_json::from_value(val);
        let shipped = match shipped {
            Ok(s) => s,
            Err(_) => match serde_json::from_str::<Metablock>(&format!(
                r#"{{"signatures":{},"signed":{}}}"#,
                serde_json::to_string(&signed_layout.signatures).unwrap(),
                layout_text
            )) {
                Ok(s) => s,
                Err(e) => {
                    problems.push(json!({"shipped_layout_does_not_parse": e.to_string()}));
                    continue;
                }
            },
        };
        let mut ck: HashMap<KeyId, PublicKey> = HashMap::new();
        ck.insert(km.id("o1"), km.pk("o1").clone());
        let r = guarded(|| in_toto::verifylib::in_toto_verify(&shipped, ck, dir.to_str().unwrap(), None));
        if outcome(&r) != "err" {
            problems.push(json!({"aliased_key_counted": k, "filed_under": filing, "verdict": outcome(&r)}));
        }
    }
    let _ = KeyId::from_str;
    json!({"out": if problems.is_empty() { "ok" } else { "bad" }, "problems": problems, "e2e": e2e})
}
