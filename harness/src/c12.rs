//! C12: key identity (KeyId.tla).
use crate::keys;
use crate::olpc::olpc_bytes;
use crate::verify::sha256_hex;
use serde_json::{json, Value};

/// the independently assembled description whose sha256 is the key id
pub fn reference_description(keytype: &str, scheme: &str, halgs: bool, public: &str) -> Value {
    let mut d = json!({"keytype": keytype, "scheme": scheme, "keyval": {"public": public}});
    if halgs {
        d["keyid_hash_algorithms"] = json!(["sha256", "sha512"]);
    }
    d
}

pub fn pem_of_spki(der: &[u8]) -> String {
    let b64 = data_encoding::BASE64.encode(der);
    let mut s = String::from("-----BEGIN PUBLIC KEY-----\n");
    for chunk in b64.as_bytes().chunks(64) {
        s.push_str(std::str::from_utf8(chunk).unwrap());
        s.push('\n');
    }
    s.push_str("-----END PUBLIC KEY-----");
    s
}

pub fn type_scheme(family: &str) -> (&'static str, &'static str) {
    match family {
        "ed25519" => ("ed25519", "ed25519"),
        "ecdsa" => ("ecdsa", "ecdsa-sha2-nistp256"),
        "rsa2048-256" | "rsa4096-256" => ("rsa", "rsassa-pss-sha256"),
        _ => ("rsa", "rsassa-pss-sha512"),
    }
}

pub fn public_field(family: &str, pk: &in_toto::crypto::PublicKey) -> String {
    match family {
        "ed25519" | "ecdsa" => data_encoding::HEXLOWER.encode(pk.as_bytes()),
        _ => pem_of_spki(&rsa_spki(pk.as_bytes())),
    }
}

fn der_len(n: usize) -> Vec<u8> {
    if n < 0x80 {
        vec![n as u8]
    } else if n < 0x100 {
        vec![0x81, n as u8]
    } else {
        vec![0x82, (n >> 8) as u8, n as u8]
    }
}

fn der(tag: u8, body: &[u8]) -> Vec<u8> {
    let mut v = vec![tag];
    v.extend(der_len(body.len()));
    v.extend(body);
    v
}

/// standard SubjectPublicKeyInfo templates (RFC 8410, RFC 5480, RFC 3279)
pub fn rsa_spki(pkcs1: &[u8]) -> Vec<u8> {
    let alg = der(0x30, &[der(0x06, &[0x2a, 0x86, 0x48, 0x86, 0xf7, 0x0d, 0x01, 0x01, 0x01]), vec![0x05, 0x00]].concat());
    let mut bits = vec![0u8];
    bits.extend(pkcs1);
    der(0x30, &[alg, der(0x03, &bits)].concat())
}

pub fn ed25519_spki(raw: &[u8]) -> Vec<u8> {
    let alg = der(0x30, &der(0x06, &[0x2b, 0x65, 0x70]));
    let mut bits = vec![0u8];
    bits.extend(raw);
    der(0x30, &[alg, der(0x03, &bits)].concat())
}

pub fn ecdsa_spki(point: &[u8]) -> Vec<u8> {
    let alg = der(
        0x30,
        &[der(0x06, &[0x2a, 0x86, 0x48, 0xce, 0x3d, 0x02, 0x01]), der(0x06, &[0x2a, 0x86, 0x48, 0xce, 0x3d, 0x03, 0x01, 0x07])].concat(),
    );
    let mut bits = vec![0u8];
    bits.extend(point);
    der(0x30, &[alg, der(0x03, &bits)].concat())
}

/// key id of every fixture key == sha256(reference rendering of its description)
pub fn keyid_preimages() -> Value {
    let mut bad = vec![];
    let mut n = 0;
    for fam in keys::FAMILIES {
        for i in 0..keys::family_size(fam) {
            let sk = keys::load(fam, i);
            let pk = sk.public();
            let (kt, sch) = type_scheme(fam);
            let d = reference_description(kt, sch, true, &public_field(fam, pk));
            let want = sha256_hex(&olpc_bytes(&d));
            let got = keys::kid_str(pk.key_id());
            n += 1;
            if want != got {
                bad.push(json!({"family": fam, "idx": i, "want": want, "got": got}));
            }
        }
    }
    json!({"n": n, "bad": bad})
}
