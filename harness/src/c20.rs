//! C20: DSSE pre-authentication encoding (Pae.tla) through the guarded re-exports.
use crate::common::*;
use rand::Rng;
use serde_json::{json, Value};

pub fn run(scn: &Value) -> Value {
    match scn["kind"].as_str().unwrap_or("") {
        "rt" => {
            let t = scn["t"].as_str().unwrap().to_string();
            let p = scn["p"].as_str().unwrap().as_bytes().to_vec();
            let packed = guarded(|| in_toto::verif::pae_pack(t.clone(), &p));
            let packed = match packed {
                Ok(b) => b,
                Err(m) => return json!({"out": "panic", "msg": m}),
            };
            let bytes_ok = packed == scn["input"].as_str().unwrap().as_bytes();
            let r = guarded(|| in_toto::verif::pae_unpack(&packed));
            let o = outcome(&r);
            let pair_ok = matches!(&r, Ok(Ok((pp, tt))) if *pp == p && *tt == t);
            let auto = guarded(|| in_toto::verif::pae_try_unpack(&packed));
            let auto_ok = matches!(&auto, Ok(Ok((pp, tt))) if *pp == p && *tt == t);
            json!({"out": o, "bytes_ok": bytes_ok, "pair_ok": pair_ok && auto_ok})
        }
        _ => {
            let input = scn["input"].as_str().unwrap().as_bytes().to_vec();
            let r = guarded(|| in_toto::verif::pae_unpack(&input));
            let mut res = json!({"out": outcome(&r)});
            if let Ok(Ok((p, t))) = &r {
                res["typ"] = json!(t);
                res["payload"] = json!(String::from_utf8_lossy(p));
            }
            res
        }
    }
}

fn rand_str(rng: &mut impl Rng, alpha: &[char], max: usize) -> String {
    let n = rng.gen_range(0..=max);
    (0..n).map(|_| alpha[rng.gen_range(0..alpha.len())]).collect()
}

/// trace of seeded random packs / unpacks over printable ASCII (so that Trace_Pae can read it)
pub fn record(n: usize, out: &mut impl std::io::Write) {
    let mut rng = rng(20);
    let alpha: Vec<char> = " 0123456789+-aZ{}\":,.DSEv/".chars().collect();
    for _ in 0..n {
        let tm = if rng.gen_bool(0.1) { 120 } else { 12 };
        let t = rand_str(&mut rng, &alpha, tm);
        let pm = if rng.gen_bool(0.1) { 130 } else { 14 };
        let p = rand_str(&mut rng, &alpha, pm);
        let packed = in_toto::verif::pae_pack(t.clone(), p.as_bytes());
        let ps = String::from_utf8(packed.clone()).unwrap();
        writeln!(out, "{}", json!({"ev": "pack", "t": chars(&t), "p": chars(&p), "out": chars(&ps)})).unwrap();
        let r = guarded(|| in_toto::verif::pae_unpack(&packed));
        match r {
            Ok(Ok((pp, tt))) => writeln!(out, "{}", json!({"ev": "unpack", "input": chars(&ps), "res": "ok",
                "t": chars(&tt), "p": chars(&String::from_utf8_lossy(&pp))})).unwrap(),
            Ok(Err(_)) => writeln!(out, "{}", json!({"ev": "unpack", "input": chars(&ps), "res": "err", "t": [], "p": []})).unwrap(),
            Err(_) => writeln!(out, "{}", json!({"ev": "unpack", "input": chars(&ps), "res": "panic", "t": [], "p": []})).unwrap(),
        }
    }
}

/// encodings whose LENGTH FIELDS hold extreme numbers (beyond what the specification's 32-bit integers can
/// express): around 2^31, 2^32, 2^63, 2^64 and far beyond, signed, zero-padded - in the first or the second field
pub fn extreme_length_inputs() -> Vec<Vec<u8>> {
    let nums = [
        "0", "00", "1", "01", "4", "5", "2147483647", "2147483648", "4294967295", "4294967296", "9223372036854775807",
        "9223372036854775808", "9223372036854775806", "4611686018427387904", "1152921504606846976", "281474976710656", "1099511627776",
        "18446744073709551614", "18446744073709551615", "18446744073709551616", "18446744073709551617",
        "99999999999999999999999999999999", "-1", "+4", "4.0", "4e0", "0x4", "",
    ];
    let mut out = vec![];
    for n in nums {
        out.push(format!("DSSEv1 {n} link 5 hello").into_bytes());
        out.push(format!("DSSEv1 4 link {n} hello").into_bytes());
        out.push(format!("DSSEv1 {n} link {n} hello").into_bytes());
        out.push(format!("DSSEv1 {n} ").into_bytes());
        out.push(format!("DSSEv1 {n}").into_bytes());
        out.push(format!("DSSEv1 0  {n} ").into_bytes());
    }
    out
}

/// binary payloads and Unicode types: exact round trip, injectivity on the sample (harness-side oracle
/// instantiating Pae.tla's RoundTrip / Injective beyond what a JSON trace can carry)
pub fn binary(n: usize) -> Value {
    let mut rng = rng(21);
    let mut bad = vec![];
    let mut seen: std::collections::HashMap<Vec<u8>, (String, Vec<u8>)> = std::collections::HashMap::new();
    // lengths around every power of ten up to a million, for the payload and for the type: the decimal length fields
    // change width there
    for e in 1..=6u32 {
        for d in [-1i64, 0, 1] {
            let len = (10i64.pow(e) + d) as usize;
            for (t, p) in [("t".to_string(), vec![b'p'; len]), ("y".repeat(len), b"p".to_vec())] {
                let packed = in_toto::verif::pae_pack(t.clone(), &p);
                let want = [format!("DSSEv1 {} {} {} ", t.len(), t, p.len()).into_bytes(), p.clone()].concat();
                let r = guarded(|| in_toto::verif::pae_unpack(&packed));
                let ok = packed == want && matches!(&r, Ok(Ok((pp, tt))) if *pp == p && *tt == t);
                if !ok && bad.len() < 5 {
                    bad.push(json!({"length": len, "type_len": t.len(), "payload_len": p.len(), "bytes_as_specified": packed == want, "res": outcome(&r)}));
                }
            }
        }
    }
    for i in 0..n {
        let tl = rng.gen_range(0..6);
        let t: String = (0..tl).map(|_| char::from_u32(rng.gen_range(0x20u32..0x2fff)).unwrap_or('x')).collect();
        let pl = rng.gen_range(0..40);
        let mut p: Vec<u8> = (0..pl).map(|_| if rng.gen_bool(0.3) { b' ' } else { rng.gen() }).collect();
        // every fourth payload is itself a complete encoding (of the same type, sometimes followed by more bytes)
        if i % 4 == 3 {
            p = in_toto::verif::pae_pack(t.clone(), &p);
            if i % 8 == 7 {
                p.push(rng.gen());
            }
        }
        let packed = in_toto::verif::pae_pack(t.clone(), &p);
        let r = guarded(|| in_toto::verif::pae_unpack(&packed));
        let ok = matches!(&r, Ok(Ok((pp, tt))) if *pp == p && *tt == t);
        if !ok && bad.len() < 5 {
            bad.push(json!({"i": i, "t": t, "p": p, "res": outcome(&r)}));
        }
        if let Some(prev) = seen.get(&packed) {
            if (prev.0.as_str(), prev.1.as_slice()) != (t.as_str(), p.as_slice()) && bad.len() < 5 {
                bad.push(json!({"collision": [prev.0, t]}));
            }
        }
        seen.insert(packed, (t, p));
    }
    json!({"n": n, "bad": bad})
}

/// decode the k-th crafted input with an extreme length field (all of them for k = usize::MAX) through both entry
/// points.  Run in a process of its own: an allocation failure or a stack overflow ends the process, and that is
/// what the caller observes.
pub fn extreme(k: usize) -> Value {
    let inputs = extreme_length_inputs();
    let mut bad = vec![];
    for (n, input) in inputs.iter().enumerate() {
        if k != usize::MAX && n != k {
            continue;
        }
        for which in 0..2 {
            let r = if which == 0 { guarded(|| in_toto::verif::pae_unpack(input).is_ok()) } else { guarded(|| in_toto::verif::pae_try_unpack(input).is_ok()) };
            if r.is_err() {
                bad.push(json!({"decode_panics": String::from_utf8_lossy(input), "entry": if which == 0 { "unpack" } else { "try_unpack" }}));
            }
        }
    }
    json!({"inputs": inputs.len(), "bad": bad})
}
