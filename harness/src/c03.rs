//! C03: artifact rule engine (Rules.tla) through the guarded re-export verif::apply_rules.
use crate::common::*;
use crate::model;
use in_toto::models::step::Step;
use in_toto::models::supply_chain_item::SupplyChainItem;
use in_toto::models::LinkMetadata;
use rand::Rng;
use serde_json::{json, Value};
use std::collections::HashMap;

pub fn run(scn: &Value, want_events: bool) -> Value {
    let item = &scn["item"];
    let step = Step::new(item["name"].as_str().unwrap())
        .expected_materials(model::rules(&item["em"]))
        .expected_products(model::rules(&item["ep"]));
    let boxed: Box<dyn SupplyChainItem> = Box::new(step);
    let mut links: HashMap<String, LinkMetadata> = HashMap::new();
    for l in scn["links"].as_array().unwrap() {
        links.insert(l["name"].as_str().unwrap().to_string(), model::link(l));
    }
    if want_events {
        in_toto::verif::start_recording();
    }
    let r = guarded(|| in_toto::verif::apply_rules(&boxed, &links));
    let mut ev = vec![];
    if want_events {
        for e in in_toto::verif::take_events() {
            if e["ev"] == "rule" {
                let cs: Vec<Vec<String>> = e["consumed"].as_array().unwrap().iter().map(|p| chars(p.as_str().unwrap())).collect();
                let q: Vec<Vec<String>> = e["queue"].as_array().unwrap().iter().map(|p| chars(p.as_str().unwrap())).collect();
                ev.push(json!({"ev": "rule", "phase": if e["phase"] == "Materials" {"M"} else {"P"},
                               "kind": e["rule"][0], "consumed": cs, "queue": q}));
            }
        }
    }
    json!({"out": outcome(&r), "ev": ev})
}

const PATHS: [&str; 11] = ["a", "b", "d/a", "d/b", "e/d/a", "ab", "A", ".h", "d/.h", "da", "e/da"];
const PATS: [&str; 12] = ["a", "*", "d/*", "?", "*a", "d/?", "e/*", "??", "A", "?h", "*h", "d*"];

fn rand_rule(rng: &mut impl Rng) -> Value {
    let kinds = ["CREATE", "DELETE", "MODIFY", "ALLOW", "REQUIRE", "DISALLOW", "MATCH", "MATCH"];
    let k = kinds[rng.gen_range(0..kinds.len())];
    let pat = if k == "REQUIRE" { PATHS[rng.gen_range(0..PATHS.len())] } else { PATS[rng.gen_range(0..PATS.len())] };
    if k == "MATCH" {
        let pre = ["", "", "d", "e", "e/d"];
        json!({"k": k, "pat": pat, "src": pre[rng.gen_range(0..pre.len())], "dst": pre[rng.gen_range(0..pre.len())],
               "with": if rng.gen_bool(0.5) {"M"} else {"P"}, "from": if rng.gen_bool(0.9) {"r"} else {"zz"}})
    } else {
        json!({"k": k, "pat": pat, "src": "", "dst": "", "with": "P", "from": ""})
    }
}

fn rand_arts(rng: &mut impl Rng) -> Vec<Value> {
    let mut v = vec![];
    for p in PATHS {
        if rng.gen_bool(0.5) {
            let d = match rng.gen_range(0..20) {
                0..=10 => "h1",
                11..=16 => "h2",
                17 => "s512:h1",
                18 => "both:h1",
                _ => "mix:h1:h2",
            };
            v.push(json!({"p": p, "d": d}));
        }
    }
    v
}

/// random abstract scenario beyond the TLC bounds (up to 4 rules per list, 6 paths, nested prefixes)
pub fn random_scn(rng: &mut impl Rng) -> Value {
    let n1 = rng.gen_range(0..=4);
    let n2 = rng.gen_range(0..=4);
    let em: Vec<Value> = (0..n1).map(|_| rand_rule(rng)).collect();
    let ep: Vec<Value> = (0..n2).map(|_| rand_rule(rng)).collect();
    let mut links = vec![json!({"name": "it", "mats": rand_arts(rng), "prods": rand_arts(rng)})];
    if rng.gen_bool(0.85) {
        links.push(json!({"name": "r", "mats": rand_arts(rng), "prods": rand_arts(rng)}));
    }
    json!({"m": "C03", "item": {"name": "it", "em": em, "ep": ep}, "links": links})
}

/// the abstract scenario in the vocabulary of Trace_Rules (paths as character sequences)
pub fn reset_event(scn: &Value, run: usize) -> Value {
    let rj = |r: &Value| json!({"k": r["k"], "pat": chars(r["pat"].as_str().unwrap()), "src": chars(r["src"].as_str().unwrap()),
                                 "dst": chars(r["dst"].as_str().unwrap()), "with": r["with"], "from": r["from"]});
    let aj = |a: &Value| -> Vec<Value> {
        a.as_array().unwrap().iter().map(|x| json!({"p": chars(x["p"].as_str().unwrap()), "d": x["d"]})).collect()
    };
    let links: Vec<Value> = scn["links"].as_array().unwrap().iter()
        .map(|l| json!({"name": l["name"], "mats": aj(&l["mats"]), "prods": aj(&l["prods"])})).collect();
    json!({"ev": "reset", "run": run, "name": scn["item"]["name"],
           "em": scn["item"]["em"].as_array().unwrap().iter().map(rj).collect::<Vec<_>>(),
           "ep": scn["item"]["ep"].as_array().unwrap().iter().map(rj).collect::<Vec<_>>(),
           "links": links})
}
