//! C14: adversarial documents (Robust.tla class lattice) and byte mutations offered to every entry point.
use crate::common::*;
use crate::keys::*;
use crate::model;
use in_toto::crypto::{KeyId, PrivateKey, PublicKey, SignatureScheme, SignatureValue};
use in_toto::models::step::Step;
use in_toto::models::supply_chain_item::SupplyChainItem;
use in_toto::models::{LayoutMetadata, LinkMetadata, Metablock, MetadataWrapper};
use rand::Rng;
use serde_json::{json, Value};
use std::collections::HashMap;
use std::str::FromStr;

pub struct Ctx {
    km: KeyMap,
    rng: rand::rngs::StdRng,
}

fn weird_keyid(class: &str, good: &str) -> Value {
    match class {
        "ok" => json!(good),
        "nonhex64" => json!("z".repeat(64)),
        // 64 BYTES with a two-byte character straddling byte offset 8
        "multibyte_at_8" => json!(format!("{}\u{e9}{}", "a".repeat(7), "b".repeat(55))),
        "multibyte_at_7" => json!(format!("{}\u{e9}{}", "a".repeat(6), "b".repeat(56))),
        "short" => json!("abcd"),
        "empty" => json!(""),
        "number" => json!(7),
        // 64 characters but more bytes
        _ => json!("\u{e9}".repeat(32)),
    }
}

fn paths_for(class: &str) -> (Vec<&'static str>, Vec<&'static str>) {
    match class {
        "plain" => (vec!["a"], vec!["a", "b"]),
        "dot_slash_both" => (vec!["./foo", "a"], vec!["./foo"]),
        "dotdot" => (vec!["x/../foo", "../up"], vec!["foo"]),
        "absolute" => (vec!["/etc/passwd"], vec!["/etc/passwd", "/"]),
        "empty" => (vec![""], vec![""]),
        "nonascii" => (vec!["\u{4e2d}/\u{e9}"], vec!["\u{1f600}"]),
        "glob" => (vec!["[", "*", "a[b"], vec!["["]),
        "backslash" => (vec!["a\\b", "\\"], vec!["a\\b"]),
        _ => (vec!["dir/", "dir//x"], vec!["dir/"]),
    }
}

impl Ctx {
    pub fn new() -> Ctx {
        Ctx { km: KeyMap::new("ed25519", &["o1", "k1", "k2"]), rng: rng(14) }
    }

    fn linkfile_doc(&self, d: &Value) -> String {
        let good_id = self.km.idstr("k1");
        let (m, p) = paths_for(d["paths"].as_str().unwrap());
        let digest = |_: &str| -> Value {
            match d["digest"].as_str().unwrap() {
                "ok" => json!({"sha256": "11".repeat(32)}),
                "unknown_alg" => json!({"md5": "11".repeat(16)}),
                "empty_map" => json!({}),
                "nonhex" => json!({"sha256": "zz"}),
                "odd_hex" => json!({"sha256": "abc"}),
                _ => json!("11"),
            }
        };
        let arts = |ps: &[&str]| -> Value { Value::Object(ps.iter().map(|x| (x.to_string(), digest(x))).collect()) };
        let name = match d["name"].as_str().unwrap() {
            "plain" => "s1".to_string(),
            "empty" => String::new(),
            "nonascii" => "s\u{e9}\u{1f600}".to_string(),
            "long" => "n".repeat(100_000),
            "glob" => "s[1*".to_string(),
            "slash" => "a/b".to_string(),
            _ => "../s1".to_string(),
        };
        let mut signed = json!({"_type": "link", "name": name, "materials": arts(&m), "products": arts(&p),
            "command": match d["command"].as_str().unwrap() { "list" => json!(["cc", "-c"]), "empty" => json!([]), "string" => json!("cc -c"), _ => json!([1, 2]) },
            "byproducts": match d["byproducts"].as_str().unwrap() {
                "normal" => json!({"return-value": 0, "stdout": "", "stderr": ""}),
                "retval_min" => json!({"return-value": i64::MIN}),
                "retval_big" => json!({"return-value": 18446744073709551615u64}),
                "retval_float" => json!({"return-value": 1.5}),
                "stdout_number" => json!({"stdout": 5}),
                "nested" => json!({"x": {"y": [1, 2]}}),
                _ => json!({}),
            },
            "environment": match d["environment"].as_str().unwrap() { "null" => Value::Null, "empty" => json!({}), "map" => json!({"A": "b"}), "list" => json!([1]), "nested" => json!({"A": {"b": 1}}), _ => Value::Null }});
        if d["environment"] == "missing" {
            signed.as_object_mut().unwrap().remove("environment");
        }
        match d["type"].as_str().unwrap() {
            "link" => {}
            "layout" => signed["_type"] = json!("layout"),
            "other" => signed["_type"] = json!("something"),
            _ => {
                signed.as_object_mut().unwrap().remove("_type");
            }
        }
        // "ok": the functionary's GENUINE signature over the content whenever the library can read the content at all
        // (the unusual content then gets past the signature check, into threshold counting and rule application)
        let genuine = guarded(|| {
            let w = MetadataWrapper::try_from_bytes(signed.to_string().as_bytes()).ok()?;
            let mb = Metablock::new(w, &[self.km.sk("k1")]).ok()?;
            let v = serde_json::to_value(&mb).ok()?;
            v["signatures"][0]["sig"].as_str().map(|x| x.to_string())
        })
        .ok()
        .flatten();
        let sigval = match d["sig_value"].as_str().unwrap() {
            "ok" => json!(genuine.unwrap_or_else(|| "ab".repeat(64))),
            "odd_hex" => json!("abc"),
            "nonhex" => json!("zz".repeat(64)),
            "empty" => json!(""),
            "huge" => json!("ab".repeat(200_000)),
            _ => json!(12),
        };
        let one = json!({"keyid": weird_keyid(d["sig_keyid"].as_str().unwrap(), &good_id), "sig": sigval});
        let second = guarded(|| {
            let w = MetadataWrapper::try_from_bytes(signed.to_string().as_bytes()).ok()?;
            let mb = Metablock::new(w, &[self.km.sk("k2")]).ok()?;
            let v = serde_json::to_value(&mb).ok()?;
            Some(v["signatures"][0].clone())
        })
        .ok()
        .flatten();
        let sigs = match d["signatures"].as_str().unwrap() {
            "two_signers" => match second {
                Some(s2) => json!([one, s2]),
                None => json!([one]),
            },
            "one" => json!([one]),
            "none" => json!([]),
            "many" => json!(vec![one.clone(); 50]),
            "dup" => json!([one.clone(), one]),
            _ => json!({"keyid": "x"}),
        };
        json!({"signatures": sigs, "signed": signed}).to_string()
    }

    fn layout_doc(&self, d: &Value) -> Value {
        let k1 = self.km.idstr("k1");
        let key_json = serde_json::to_value(self.km.pk("k1")).unwrap();
        let mut keytable = json!({ k1.clone(): key_json.clone() });
        match d["keytable"].as_str().unwrap() {
            "ok" => {}
            "id_mismatch" => keytable = json!({ self.km.idstr("k2"): key_json }),
            "garbage_hex" => keytable[&k1]["keyval"]["public"] = json!("zz".repeat(32)),
            "odd_hex" => keytable[&k1]["keyval"]["public"] = json!("abc"),
            "not_pem" => {
                keytable[&k1]["keytype"] = json!("rsa");
                keytable[&k1]["scheme"] = json!("rsassa-pss-sha256");
                keytable[&k1]["keyval"]["public"] = json!("this is not PEM");
            }
            "truncated_pem" => {
                keytable[&k1]["keytype"] = json!("rsa");
                keytable[&k1]["scheme"] = json!("rsassa-pss-sha256");
                keytable[&k1]["keyval"]["public"] = json!("-----BEGIN PUBLIC KEY-----\nMIIBIjANBgkqhkiG9w0BAQ\n-----END PUBLIC KEY-----");
            }
            "unknown_type" => keytable[&k1]["keytype"] = json!("dsa"),
            "scheme_mismatch" => keytable[&k1]["scheme"] = json!("rsassa-pss-sha256"),
            _ => keytable = json!({}),
        }
        let name = match d["step_name"].as_str().unwrap() {
            "plain" | "duplicate" => "s1".to_string(),
            "empty" => String::new(),
            "slash" => "a/b".to_string(),
            "dotdot" => "..".to_string(),
            "glob_open" => "s[1".to_string(),
            "glob_star" => "*".to_string(),
            _ => "s\u{e9}".to_string(),
        };
        let thr = match d["threshold"].as_str().unwrap() {
            "one" => json!(1),
            "zero" => json!(0),
            "u32max" => json!(u32::MAX),
            "negative" => json!(-1),
            "too_big" => json!(4294967296u64),
            "float" => json!(1.5),
            _ => json!("1"),
        };
        let pubkeys = match d["pubkeys"].as_str().unwrap() {
            "ok" => json!([k1]),
            "multibyte" => json!([weird_keyid("multibyte_at_8", "")]),
            "short" => json!(["ab"]),
            "empty_list" => json!([]),
            _ => json!("k1"),
        };
        let rule = match d["rule"].as_str().unwrap() {
            "ok" => json!([["ALLOW", "*"]]),
            "bad_glob" => json!([["DISALLOW", "["], ["CREATE", "a[b"], ["MATCH", "[", "WITH", "PRODUCTS", "FROM", "s1"]]),
            "recursive_glob" => json!([["ALLOW", "a**b"], ["DISALLOW", "**"]]),
            "short" => json!([["ALLOW"]]),
            "long" => json!([["MATCH", "a", "IN", "b", "WITH", "PRODUCTS", "IN", "c", "FROM", "d", "extra"]]),
            "lowercase" => json!([["allow", "*"]]),
            "not_list" => json!("ALLOW *"),
            _ => json!([["REQUIRE", ""], ["ALLOW", ""]]),
        };
        let step = json!({"_type": "step", "name": name, "threshold": thr, "expected_materials": rule, "expected_products": rule,
                          "pubkeys": pubkeys, "expected_command": []});
        let steps = if d["step_name"] == "duplicate" { json!([step.clone(), step]) } else { json!([step]) };
        let inspect = match d["inspect"].as_str().unwrap() {
            "none" => json!([]),
            "empty_run" => json!([{"_type": "inspection", "name": "i1", "expected_materials": [], "expected_products": [], "run": []}]),
            "missing_cmd" => json!([{"_type": "inspection", "name": "i1", "expected_materials": [], "expected_products": [], "run": ["/nonexistent/itv"]}]),
            _ => json!([{"_type": "inspection", "name": "../i\u{e9}/x", "expected_materials": [], "expected_products": [], "run": ["true"]}]),
        };
        let expires = match d["expires"].as_str().unwrap() {
            "ok" => json!("2099-01-01T00:00:00Z"),
            "garbage" => json!("tomorrow"),
            "year0" => json!("0000-01-01T00:00:00Z"),
            "year9999" => json!("9999-12-31T23:59:59Z"),
            "year10000" => json!("10000-01-01T00:00:00Z"),
            "leap_second" => json!("2099-06-30T23:59:60Z"),
            "empty" => json!(""),
            "number" => json!(4102444800u64),
            _ => json!("1970-01-01T00:00:00Z"),
        };
        let readme = match d["readme"].as_str().unwrap() {
            "plain" => json!("r"),
            "controls" => json!("a\u{0}b\u{1f}\n\t\\n"),
            _ => json!(3),
        };
        json!({"_type": "layout", "expires": expires, "readme": readme, "keys": keytable, "steps": steps, "inspect": inspect})
    }

    fn verify_with_dir(&self, layout: &Metablock, files: &[(String, String)]) -> &'static str {
        let tmp = tempfile::tempdir().unwrap();
        let root = tmp.path().canonicalize().unwrap();
        let links = root.join("links");
        let work = root.join("work");
        std::fs::create_dir_all(&links).unwrap();
        std::fs::create_dir_all(&work).unwrap();
        for (n, t) in files {
            // a symbolic link <name> -> . (a directory entry that leads back to the link directory)
            if let Some(name) = n.strip_suffix("/@self") {
                let _ = std::os::unix::fs::symlink(".", links.join(name));
                continue;
            }
            // a DIRECTORY named like a link file (only for the harness' own fixed name)
            if let Some(inner) = n.strip_prefix("s1.abcdef01.link/") {
                let _ = std::fs::create_dir_all(links.join("s1.abcdef01.link"));
                let _ = std::fs::write(links.join("s1.abcdef01.link").join(inner), t);
                continue;
            }
            if n.contains('/') || n.is_empty() {
                continue;
            }
            let _ = std::fs::write(links.join(n), t);
        }
        let mut keys: HashMap<KeyId, PublicKey> = HashMap::new();
        keys.insert(self.km.id("o1"), self.km.pk("o1").clone());
        let old = std::env::current_dir().ok();
        let _ = std::env::set_current_dir(&work);
        let r = guarded(|| in_toto::verifylib::in_toto_verify(layout, keys, links.to_str().unwrap(), None));
        if let Some(o) = old {
            let _ = std::env::set_current_dir(o);
        }
        match outcome(&r) {
            "ok" => "value",
            "err" => "error",
            _ => "panic",
        }
    }

    fn good_layout(&self) -> Metablock {
        let l: LayoutMetadata = serde_json::from_value(self.layout_doc(&json!({"expires": "ok", "keytable": "ok", "step_name": "plain", "threshold": "one",
            "pubkeys": "ok", "rule": "ok", "inspect": "none", "readme": "plain", "sigs": "owner"}))).unwrap();
        Metablock::new(MetadataWrapper::Layout(l), &[self.km.sk("o1")]).unwrap()
    }

    pub fn run(&mut self, scn: &Value) -> Value {
        let d = &scn["doc"];
        let mut calls: Vec<Value> = vec![];
        let mut call = |entry: &str, res: &str| calls.push(json!({"entry": entry, "res": res}));
        let cls = |r: &Result<bool, String>| match r {
            Ok(true) => "value",
            Ok(false) => "error",
            Err(_) => "panic",
        };
        match scn["kind"].as_str().unwrap() {
            "linkfile" => {
                let text = self.linkfile_doc(d);
                let r1 = guarded(|| serde_json::from_str::<Metablock>(&text).is_ok());
                call("parse_block", cls(&r1));
                let inner = serde_json::from_str::<Value>(&text).unwrap()["signed"].to_string();
                let r2 = guarded(|| MetadataWrapper::try_from_bytes(inner.as_bytes()).is_ok());
                call("parse_wrapper", cls(&r2));
                // (the block is checked with one key, and with two keys of which only one signature is asked for)
                let r3 = guarded(|| match serde_json::from_str::<Metablock>(&text) {
                    Ok(b) => {
                        let one = b.verify(1, [self.km.pk("k1")]).is_ok();
                        let two = b.verify(1, [self.km.pk("k1"), self.km.pk("k2")]).is_ok();
                        let _ = b.verify(2, [self.km.pk("k2"), self.km.pk("k1")]).is_ok();
                        one || two
                    }
                    Err(_) => false,
                });
                call("block_verify", cls(&r3));
                // the file sits in the link directory of an otherwise valid supply chain, under k1's prefix
                let layout = self.good_layout();
                let own = self.km.idstr("k1")[0..8].to_string();
                let eight = match d["filename"].as_str().unwrap_or("prefix8") {
                    "eight_3byte" => "\u{20ac}".repeat(8),
                    "four_ascii_four_3byte" => format!("1234{}", "\u{20ac}".repeat(4)),
                    "eight_2byte" => "\u{e9}".repeat(8),
                    "eight_4byte" => "\u{1f600}".repeat(8),
                    "one_3byte_seven_ascii" => format!("\u{20ac}{}", &own[0..7]),
                    "uppercase_prefix" => own.to_uppercase(),
                    _ => own.clone(),
                };
                let fname = format!("s1.{eight}.link");
                let mut files = vec![(fname, text.clone())];
                if d["filename"] == "self_delegation_through_a_directory_link" {
                    // the step's evidence is a sub-layout (validly signed by the functionary) that delegates the same
                    // step to the same functionary again, and the sub-directory it is to be verified in is a
                    // symbolic link back to the link directory: the delegation never bottoms out by itself
                    let inner = self.good_layout().metadata.clone();
                    let sub = Metablock::new(inner, &[self.km.sk("k1")]).unwrap();
                    files = vec![(format!("s1.{own}.link"), serde_json::to_string(&sub).unwrap()), (format!("s1.{own}/@self"), String::new())];
                } else if d["filename"] == "directory_named_like_a_link" {
                    files = vec![("s1.abcdef01.link/inner".to_string(), text.clone())];
                } else if d["filename"] != "prefix8" {
                    // the honest link stays where it belongs; the odd-named file is an extra
                    let good = Metablock::new(simple_link("s1"), &[self.km.sk("k1")]).unwrap();
                    files.push((format!("s1.{own}.link"), serde_json::to_string(&good).unwrap()));
                }
                call("final_product_verification", self.verify_with_dir(&layout, &files));
            }
            "layout" => {
                let doc = self.layout_doc(d);
                let parsed = guarded(|| serde_json::from_value::<LayoutMetadata>(doc.clone()).ok());
                match parsed {
                    Err(_) => {
                        call("parse_block", "panic");
                        call("final_product_verification", "error");
                    }
                    Ok(None) => {
                        call("parse_block", "error");
                        // shipped as an unparseable top-level document: nothing further to offer
                        call("final_product_verification", "error");
                    }
                    Ok(Some(l)) => {
                        call("parse_block", "value");
                        let signed = guarded(|| Metablock::new(MetadataWrapper::Layout(l.clone()), &[self.km.sk("o1")]));
                        match signed {
                            Ok(Ok(mut mb)) => {
                                match d["sigs"].as_str().unwrap() {
                                    "none" => mb.signatures.clear(),
                                    "multibyte_keyid" => {
                                        let v = mb.signatures[0].value().as_bytes().to_vec();
                                        let txt = json!({"keyid": weird_keyid("multibyte_at_8", ""), "sig": data_encoding::HEXLOWER.encode(&v)});
                                        if let Ok(s) = serde_json::from_value(txt) {
                                            mb.signatures = vec![s];
                                        }
                                    }
                                    _ => {}
                                }
                                // a valid link for every step name that can be a file name
                                let mut files = vec![];
                                let how = d["links"].as_str().unwrap_or("present");
                                for st in &l.steps {
                                    if how == "absent" {
                                        break;
                                    }
                                    let by = if how == "by_other_key" { "k2" } else { "k1" };
                                    let link = Metablock::new(simple_link(&st.name), &[self.km.sk(by)]).unwrap();
                                    let mut text = serde_json::to_value(&link).unwrap();
                                    if how == "bad_signature" {
                                        let sig = text["signatures"][0]["sig"].as_str().unwrap_or("").to_string();
                                        let flipped: String = sig.chars().enumerate().map(|(i, c)| if i == 4 { if c == '0' { '1' } else { '0' } } else { c }).collect();
                                        text["signatures"][0]["sig"] = json!(flipped);
                                    }
                                    files.push((format!("{}.{}.link", st.name, &self.km.idstr(by)[0..8]), text.to_string()));
                                }
                                call("final_product_verification", self.verify_with_dir(&mb, &files));
                            }
                            Ok(Err(_)) => call("final_product_verification", "error"),
                            Err(_) => call("final_product_verification", "panic"),
                        }
                    }
                }
            }
            "rules" => {
                let (im, ip) = paths_for(match d["item_paths"].as_str().unwrap() { "trailing_slash" => "trailing", o => o });
                let (rm, rp) = paths_for(d["ref_paths"].as_str().unwrap_or("plain"));
                let arts = |ps: &[&str]| -> Value { json!(ps.iter().map(|p| json!({"p": p, "d": "h1"})).collect::<Vec<_>>()) };
                let pat = match d["pattern"].as_str().unwrap() {
                    "plain" => "a",
                    "bad_glob" => "[",
                    "recursive_glob" => "a**",
                    "empty" => "",
                    "nonascii" => "\u{4e2d}*",
                    _ => "*",
                };
                let pre = match d["prefix"].as_str().unwrap() {
                    "none" => "",
                    "plain" => "x",
                    "empty" => "",
                    "slash" => "/",
                    "dotdot" => "..",
                    _ => "x/",
                };
                let from = match d["from"].as_str().unwrap() {
                    "present" => "r",
                    "absent" => "nobody",
                    _ => "it",
                };
                let mut rules = vec![];
                for k in ["CREATE", "DELETE", "MODIFY", "ALLOW", "REQUIRE", "DISALLOW"] {
                    rules.push(json!({"k": k, "pat": pat, "src": "", "dst": "", "with": "P", "from": ""}));
                }
                rules.insert(0, json!({"k": "MATCH", "pat": pat, "src": pre, "dst": pre, "with": "M", "from": from}));
                rules.insert(0, json!({"k": "MATCH", "pat": pat, "src": "", "dst": pre, "with": "P", "from": from}));
                // ... and MATCH rules that match everything, so that a lookup really happens for every artifact
                rules.insert(0, json!({"k": "MATCH", "pat": "*", "src": "", "dst": "", "with": "P", "from": from}));
                rules.insert(0, json!({"k": "MATCH", "pat": "*", "src": "", "dst": "", "with": "M", "from": from}));
                let mut outs = vec![];
                // every rule alone, and the whole list
                let mut lists: Vec<Vec<Value>> = rules.iter().map(|r| vec![r.clone()]).collect();
                lists.push(rules.clone());
                for rl in lists {
                    let step = Step::new("it").expected_materials(model::rules(&json!(rl))).expected_products(model::rules(&json!(rl)));
                    let boxed: Box<dyn SupplyChainItem> = Box::new(step);
                    let mut links: HashMap<String, LinkMetadata> = HashMap::new();
                    links.insert("it".into(), model::link(&json!({"name": "it", "mats": arts(&im), "prods": arts(&ip)})));
                    if d["ref_paths"] != "missing_step" {
                        links.insert("r".into(), model::link(&json!({"name": "r", "mats": arts(&rm), "prods": arts(&rp)})));
                    }
                    let r = guarded(|| in_toto::verif::apply_rules(&boxed, &links).is_ok());
                    outs.push(cls(&r));
                }
                let worst = if outs.contains(&"panic") { "panic" } else if outs.contains(&"error") { "error" } else { "value" };
                call("rule_application", worst);
            }
            _ => {
                let form = d["form"].as_str().unwrap();
                let sk = load("ed25519", 0);
                let rsa = load("rsa2048-256", 0);
                let ec = load("ecdsa", 0);
                let base: Vec<u8> = match form {
                    "spki_ed25519" => crate::c12::ed25519_spki(sk.public().as_bytes()),
                    "spki_rsa" => crate::c12::rsa_spki(rsa.public().as_bytes()),
                    "spki_ecdsa" => crate::c12::ecdsa_spki(ec.public().as_bytes()),
                    "pem" => crate::c12::pem_of_spki(&crate::c12::rsa_spki(rsa.public().as_bytes())).into_bytes(),
                    "pkcs8_ed25519" => raw_der("ed25519", 0).to_vec(),
                    "pkcs8_rsa" => raw_der("rsa2048-256", 0).to_vec(),
                    "pkcs8_ecdsa" => raw_der("ecdsa", 0).to_vec(),
                    "raw_ed25519" => sk.public().as_bytes().to_vec(),
                    "raw_ecdsa" => ec.public().as_bytes().to_vec(),
                    "keyid_str" => kid_str(sk.key_id()).into_bytes(),
                    "sig_hex" => "ab".repeat(64).into_bytes(),
                    _ => serde_json::to_vec(sk.public()).unwrap(),
                };
                let mut bytes = base.clone();
                match d["damage"].as_str().unwrap() {
                    "none" => {}
                    "empty" => bytes.clear(),
                    "truncate1" => {
                        bytes.pop();
                    }
                    "truncate_half" => bytes.truncate(base.len() / 2),
                    "wrong_oid" => {
                        if bytes.len() > 8 {
                            bytes[8] ^= 0x55;
                        }
                    }
                    "garbage" => bytes = (0..base.len()).map(|_| self.rng.gen()).collect(),
                    "trailing" => bytes.extend(b"\0trailing"),
                    "bitflip" => {
                        let i = self.rng.gen_range(0..bytes.len().max(1));
                        if !bytes.is_empty() {
                            bytes[i] ^= 1 << self.rng.gen_range(0..8);
                        }
                    }
                    "text" => bytes = b"not a key at all \xe9\xff".to_vec(),
                    dmg @ ("empty_bitstring" | "only_unused_octet" | "nonzero_unused" | "empty_oid" | "empty_algid" | "long_form_length"
                    | "empty_octets" | "nested_empty") => {
                        bytes = degenerate_der(form, dmg, &base);
                    }
                    _ => bytes = base.iter().cycle().take(1 << 20).cloned().collect(),
                }
                let res = key_import_all(&bytes);
                call("key_import", res);
            }
        }
        json!({"calls": calls})
    }
}

fn der_tlv(tag: u8, body: &[u8]) -> Vec<u8> {
    let mut v = vec![tag];
    if body.len() < 0x80 {
        v.push(body.len() as u8);
    } else if body.len() < 0x100 {
        v.extend([0x81, body.len() as u8]);
    } else {
        v.extend([0x82, (body.len() >> 8) as u8, body.len() as u8]);
    }
    v.extend(body);
    v
}

/// structurally valid DER / PEM / JSON key documents whose inner fields are degenerate
fn degenerate_der(form: &str, dmg: &str, base: &[u8]) -> Vec<u8> {
    let oid: &[u8] = match form {
        "spki_rsa" | "pem" | "pkcs8_rsa" | "pubkey_json" => &[0x2a, 0x86, 0x48, 0x86, 0xf7, 0x0d, 0x01, 0x01, 0x01],
        "spki_ecdsa" | "pkcs8_ecdsa" | "raw_ecdsa" => &[0x2a, 0x86, 0x48, 0xce, 0x3d, 0x02, 0x01],
        _ => &[0x2b, 0x65, 0x70],
    };
    let params: Vec<u8> = match form {
        "spki_rsa" | "pem" | "pkcs8_rsa" | "pubkey_json" => vec![0x05, 0x00],
        "spki_ecdsa" | "pkcs8_ecdsa" | "raw_ecdsa" => der_tlv(0x06, &[0x2a, 0x86, 0x48, 0xce, 0x3d, 0x03, 0x01, 0x07]),
        _ => vec![],
    };
    let algid = |o: &[u8]| der_tlv(0x30, &[der_tlv(0x06, o), params.clone()].concat());
    let spki = match dmg {
        "empty_bitstring" => der_tlv(0x30, &[algid(oid), vec![0x03, 0x00]].concat()),
        "only_unused_octet" => der_tlv(0x30, &[algid(oid), vec![0x03, 0x01, 0x00]].concat()),
        "nonzero_unused" => der_tlv(0x30, &[algid(oid), vec![0x03, 0x02, 0x07, 0x80]].concat()),
        "empty_oid" => der_tlv(0x30, &[der_tlv(0x30, &[vec![0x06, 0x00], params.clone()].concat()), vec![0x03, 0x02, 0x00, 0x01]].concat()),
        "empty_algid" => der_tlv(0x30, &[vec![0x30, 0x00], vec![0x03, 0x02, 0x00, 0x01]].concat()),
        "long_form_length" => {
            let mut v = vec![0x30, 0x84, 0x00, 0x00, 0x00, 0x09];
            v.extend(algid(oid));
            v.extend([0x03, 0x00]);
            v
        }
        "empty_octets" => der_tlv(0x30, &[vec![0x02, 0x01, 0x00], algid(oid), vec![0x04, 0x00]].concat()),
        _ => der_tlv(0x30, &der_tlv(0x30, &der_tlv(0x30, &[]))),
    };
    match form {
        "pem" => crate::c12::pem_of_spki(&spki).into_bytes(),
        "pubkey_json" => {
            let pem = crate::c12::pem_of_spki(&spki);
            serde_json::to_vec(&json!({"keytype": "rsa", "scheme": "rsassa-pss-sha256", "keyid_hash_algorithms": ["sha256", "sha512"],
                                       "keyval": {"public": pem}})).unwrap()
        }
        "keyid_str" | "sig_hex" | "raw_ed25519" | "raw_ecdsa" => {
            let _ = base;
            data_encoding::HEXLOWER.encode(&spki).into_bytes()
        }
        _ => spki,
    }
}

/// offer bytes to every key / id / signature importer
pub fn key_import_all(bytes: &[u8]) -> &'static str {
    let mut any_ok = false;
    let mut panicked = false;
    let text = String::from_utf8_lossy(bytes).to_string();
    let schemes = [SignatureScheme::Ed25519, SignatureScheme::RsaSsaPssSha256, SignatureScheme::RsaSsaPssSha512, SignatureScheme::EcdsaP256Sha256];
    let mut note = |r: Result<bool, String>| match r {
        Ok(true) => any_ok = true,
        Ok(false) => {}
        Err(_) => panicked = true,
    };
    for s in &schemes {
        note(guarded(|| PublicKey::from_spki(bytes, s.clone()).is_ok()));
        note(guarded(|| PublicKey::from_pem_spki(&text, s.clone()).is_ok()));
        note(guarded(|| PrivateKey::from_pkcs8(bytes, s.clone()).is_ok()));
    }
    note(guarded(|| PublicKey::from_ed25519(bytes.to_vec()).is_ok()));
    note(guarded(|| PublicKey::from_ecdsa(bytes.to_vec()).map(|k| { let _ = k.as_spki(); let _ = serde_json::to_string(&k); true }).unwrap_or(false)));
    note(guarded(|| PrivateKey::from_ed25519(bytes).is_ok()));
    note(guarded(|| KeyId::from_str(&text).map(|k| { let _ = k.prefix(); true }).unwrap_or(false)));
    note(guarded(|| SignatureValue::from_hex(&text).is_ok()));
    note(guarded(|| serde_json::from_slice::<PublicKey>(bytes).is_ok()));
    note(guarded(|| serde_json::from_slice::<in_toto::crypto::Signature>(bytes).is_ok()));
    if panicked {
        "panic"
    } else if any_ok {
        "value"
    } else {
        "error"
    }
}

/// every parser / verifier on one byte string
pub fn offer_bytes(ctx: &Ctx, bytes: &[u8]) -> &'static str {
    let mut panicked = false;
    let mut any = false;
    let mut note = |r: Result<bool, String>| match r {
        Ok(true) => any = true,
        Ok(false) => {}
        Err(_) => panicked = true,
    };
    note(guarded(|| match serde_json::from_slice::<Metablock>(bytes) {
        Ok(b) => {
            let _ = b.verify(1, [ctx.km.pk("k1")]);
            let _ = serde_json::to_string(&b);
            true
        }
        Err(_) => false,
    }));
    note(guarded(|| MetadataWrapper::try_from_bytes(bytes).map(|m| { let _ = m.to_bytes(); true }).unwrap_or(false)));
    note(guarded(|| serde_json::from_slice::<in_toto::models::PredicateWrapper>(bytes).is_ok()));
    note(guarded(|| serde_json::from_slice::<in_toto::models::StatementWrapper>(bytes).is_ok()));
    note(guarded(|| serde_json::from_slice::<in_toto::models::rule::ArtifactRule>(bytes).is_ok()));
    note(guarded(|| in_toto::verif::pae_unpack(bytes).is_ok()));
    note(guarded(|| in_toto::verif::pae_try_unpack(bytes).is_ok()));
    note(guarded(|| serde_json::from_slice::<Value>(bytes).ok().map(|v| in_toto::interchange::Json::canonicalize(&v).is_ok()).unwrap_or(false)));
    if panicked {
        "panic"
    } else if any {
        "value"
    } else {
        "error"
    }
}

use in_toto::interchange::DataInterchange;

/// C14, sizes: documents that are extremely DEEP (containers nested 200 .. 100 000 times, bare or in the place of a
/// member of an otherwise well-formed block) or extremely LONG (a 4 MiB string, a 200 000-element array) are offered
/// to every parser and, as a link file, to verification.  Run in a process of its own: a stack overflow ends the
/// process, and that is what the caller observes.  k = usize::MAX: all inputs; otherwise only the k-th.
pub fn deep_inputs() -> Vec<(String, Vec<u8>)> {
    let mut out: Vec<(String, Vec<u8>)> = vec![];
    for depth in [129usize, 200, 5_000, 100_000] {
        let arr = "[".repeat(depth);
        let obj = "{\"a\":".repeat(depth);
        let closed = format!("{}{}", "[".repeat(depth), "]".repeat(depth));
        out.push((format!("open_arrays_{depth}"), arr.clone().into_bytes()));
        out.push((format!("open_objects_{depth}"), obj.clone().into_bytes()));
        out.push((format!("closed_arrays_{depth}"), closed.clone().into_bytes()));
        out.push((format!("block_signed_{depth}"), format!("{{\"signatures\":[],\"signed\":{closed}}}").into_bytes()));
        out.push((format!("link_env_{depth}"), format!("{{\"signatures\":[],\"signed\":{{\"_type\":\"link\",\"name\":\"s1\",\"materials\":{{}},\"products\":{{}},\"command\":[],\"byproducts\":{{\"x\":{closed}}},\"environment\":{closed}}}}}").into_bytes()));
        out.push((format!("layout_readme_{depth}"), format!("{{\"signatures\":[],\"signed\":{{\"_type\":\"layout\",\"expires\":\"2030-01-01T00:00:00Z\",\"readme\":{closed},\"keys\":{{}},\"steps\":{obj}1,\"inspect\":[]}}}}").into_bytes()));
    }
    let long = "x".repeat(4 << 20);
    out.push(("long_string".into(), format!("\"{long}\"").into_bytes()));
    out.push(("long_name".into(), format!("{{\"signatures\":[],\"signed\":{{\"_type\":\"link\",\"name\":\"{long}\",\"materials\":{{}},\"products\":{{}},\"command\":[],\"byproducts\":{{}},\"environment\":null}}}}").into_bytes()));
    out.push(("wide_array".into(), format!("[{}0]", "0,".repeat(200_000)).into_bytes()));
    out.push(("wide_command".into(), format!("{{\"signatures\":[],\"signed\":{{\"_type\":\"link\",\"name\":\"s1\",\"materials\":{{}},\"products\":{{}},\"command\":[{}\"a\"],\"byproducts\":{{}},\"environment\":null}}}}", "\"a\",".repeat(200_000)).into_bytes()));
    out.push(("many_signatures".into(), format!("{{\"signatures\":[{}{{\"keyid\":\"00\",\"sig\":\"00\"}}],\"signed\":{{\"_type\":\"link\",\"name\":\"s1\",\"materials\":{{}},\"products\":{{}},\"command\":[],\"byproducts\":{{}},\"environment\":null}}}}", "{\"keyid\":\"00\",\"sig\":\"00\"},".repeat(50_000)).into_bytes()));
    out
}

pub fn deep(k: usize) -> Value {
    use in_toto::interchange::{DataInterchange, Json, JsonPretty};
    let ctx = Ctx::new();
    let layout = ctx.good_layout();
    let own = ctx.km.idstr("k1")[0..8].to_string();
    let inputs = deep_inputs();
    let mut bad = vec![];
    let mut calls = 0;
    for (n, (name, bytes)) in inputs.iter().enumerate() {
        if k != usize::MAX && n != k {
            continue;
        }
        let mut offer = |entry: &str, r: std::result::Result<bool, String>| {
            calls += 1;
            if let Err(p) = r {
                bad.push(json!({"input": name, "entry": entry, "panic": p.chars().take(200).collect::<String>()}));
            }
        };
        offer("Metablock/slice", guarded(|| serde_json::from_slice::<Metablock>(bytes).is_ok()));
        offer("Metablock/reader", guarded(|| serde_json::from_reader::<_, Metablock>(std::io::Cursor::new(bytes.clone())).is_ok()));
        offer("MetadataWrapper/try_from_bytes", guarded(|| MetadataWrapper::try_from_bytes(bytes).is_ok()));
        offer("LayoutMetadata/slice", guarded(|| serde_json::from_slice::<LayoutMetadata>(bytes).is_ok()));
        offer("LinkMetadata/slice", guarded(|| serde_json::from_slice::<LinkMetadata>(bytes).is_ok()));
        offer("PublicKey/slice", guarded(|| serde_json::from_slice::<PublicKey>(bytes).is_ok()));
        offer("Json::from_slice<Value>", guarded(|| Json::from_slice::<Value>(bytes).is_ok()));
        offer("JsonPretty::from_slice<Metablock>", guarded(|| JsonPretty::from_slice::<Metablock>(bytes).is_ok()));
        offer("StatementWrapper/slice", guarded(|| serde_json::from_slice::<in_toto::models::StatementWrapper>(bytes).is_ok()));
        offer("PredicateWrapper/slice", guarded(|| serde_json::from_slice::<in_toto::models::PredicateWrapper>(bytes).is_ok()));
        // what a parser accepted as a tree goes on to the canonicaliser
        if let Ok(v) = serde_json::from_slice::<Value>(bytes) {
            offer("Json::canonicalize", guarded(|| Json::canonicalize(&v).is_ok()));
            std::mem::forget(v);
        }
        let text = String::from_utf8_lossy(bytes).to_string();
        let r = ctx.verify_with_dir(&layout, &[(format!("s1.{own}.link"), text)]);
        offer("final_product_verification", if r == "panic" { Err("panic during verification".to_string()) } else { Ok(true) });
    }
    json!({"inputs": inputs.len(), "calls": calls, "bad": bad})
}

/// C17, the link directory as a channel: the BYTES of a genuinely signed link file - as written, padded, with the
/// replacement character's three bytes exchanged for ill-formed UTF-8, with things before or after the document -
/// are (a) parsed from the slice and verified against the signer, (b) placed in the link directory of a layout they
/// satisfy and offered to in_toto_verify.  The file counts exactly when the slice is a validly signed block.
pub fn linkdir_channel() -> Value {
    let ctx = Ctx::new();
    let layout = ctx.good_layout();
    let link = MetadataWrapper::Link(
        in_toto::models::LinkMetadataBuilder::new()
            .name("s1".to_string())
            .byproducts(in_toto::models::byproducts::ByProducts::new().set_stdout("a \u{fffd} b \u{e9}\u{20ac}\u{1f600}".to_string()).set_stderr(String::new()).set_return_value(0))
            .build()
            .unwrap(),
    );
    let good = serde_json::to_vec(&Metablock::new(link, &[ctx.km.sk("k1")]).unwrap()).unwrap();
    let fffd = [0xEFu8, 0xBF, 0xBD];
    let at = good.windows(3).position(|w| w == fffd).expect("the replacement character is in the text");
    let with = |bytes: &[u8]| -> Vec<u8> {
        let mut v = good[..at].to_vec();
        v.extend_from_slice(bytes);
        v.extend_from_slice(&good[at + 3..]);
        v
    };
    let around = |pre: &[u8], post: &[u8]| -> Vec<u8> {
        let mut v = pre.to_vec();
        v.extend_from_slice(&good);
        v.extend_from_slice(post);
        v
    };
    let variants: Vec<(&str, Vec<u8>)> = vec![
        ("as_written", good.clone()),
        ("padded", around(b"\n \t", b" \r\n")),
        ("lone_latin1_byte", with(&[0xE9])),
        ("byte_ff", with(&[0xFF])),
        ("overlong_slash", with(&[0xC0, 0xAF])),
        ("surrogate", with(&[0xED, 0xA0, 0x80])),
        ("beyond_10ffff", with(&[0xF4, 0x90, 0x80, 0x80])),
        ("cut_sequence", with(&[0xEF, 0xBF])),
        ("continuation_only", with(&[0x80])),
        ("bom_before", around(&[0xEF, 0xBB, 0xBF], b"")),
        ("garbage_after", around(b"", b" x")),
        ("nul_after", around(b"", &[0])),
        ("form_feed_before", around(&[0x0C], b"")),
        ("twice", around(b"", &good)),
        ("invalid_byte_after", around(b"", &[0xFF])),
        ("cut_short", good[..good.len() - 1].to_vec()),
    ];
    let own = ctx.km.idstr("k1")[0..8].to_string();
    let mut bad = vec![];
    let mut n = 0;
    for (name, bytes) in &variants {
        let a = guarded(|| match serde_json::from_slice::<Metablock>(bytes) {
            Ok(b) => b.verify(1, [ctx.km.pk("k1")]).is_ok(),
            Err(_) => false,
        });
        let tmp = tempfile::tempdir().unwrap();
        let root = tmp.path().canonicalize().unwrap();
        let links = root.join("links");
        let work = root.join("work");
        std::fs::create_dir_all(&links).unwrap();
        std::fs::create_dir_all(&work).unwrap();
        std::fs::write(links.join(format!("s1.{own}.link")), bytes).unwrap();
        let mut keys: HashMap<KeyId, PublicKey> = HashMap::new();
        keys.insert(ctx.km.id("o1"), ctx.km.pk("o1").clone());
        let old = std::env::current_dir().ok();
        let _ = std::env::set_current_dir(&work);
        let b = guarded(|| in_toto::verifylib::in_toto_verify(&layout, keys, links.to_str().unwrap(), None).is_ok());
        if let Some(o) = old {
            let _ = std::env::set_current_dir(o);
        }
        n += 1;
        match (&a, &b) {
            (Ok(x), Ok(y)) if x == y => {}
            _ => bad.push(json!({"variant": name, "slice_gives_a_valid_block": format!("{:?}", a), "file_counts": format!("{:?}", b)})),
        }
    }
    // vacuity: the file as written must count
    if guarded(|| serde_json::from_slice::<Metablock>(&variants[0].1).map(|b| b.verify(1, [ctx.km.pk("k1")]).is_ok()).unwrap_or(false)) != Ok(true) {
        bad.push(json!({"variant": "as_written", "harness": "the genuine file does not verify"}));
    }
    json!({"n": n, "bad": bad})
}

/// seeded byte-level mutation of well-formed documents (bit flips, truncation, splices, duplicated chunks)
pub fn mutate(n: usize) -> Value {
    let ctx = Ctx::new();
    let mut rng = rng(1400);
    let d_link = json!({"sig_keyid": "ok", "sig_value": "ok", "signatures": "one", "type": "link", "name": "plain", "paths": "plain",
        "digest": "ok", "command": "list", "byproducts": "normal", "environment": "map"});
    let layout = ctx.good_layout();
    let link = Metablock::new(simple_link("s1"), &[ctx.km.sk("k1")]).unwrap();
    let seeds: Vec<Vec<u8>> = vec![
        ctx.linkfile_doc(&d_link).into_bytes(),
        serde_json::to_vec(&layout).unwrap(),
        serde_json::to_vec_pretty(&link).unwrap(),
        in_toto::verif::pae_pack("application/vnd.in-toto+json".into(), b"{\"a\":1}"),
        serde_json::to_vec(ctx.km.pk("k1")).unwrap(),
        crate::wire::pred_doc(&["builder".into(), "buildType".into(), "metadata".into(), "materials".into()], "list", "Z").to_string().into_bytes(),
        br#"{"_type":"https://in-toto.io/Statement/v0.1","subject":{},"predicateType":"https://in-toto.io/Link/v0.2","predicate":{"name":"","materials":{},"env":null,"command":[],"byproducts":{}}}"#.to_vec(),
    ];
    let rsa = load("rsa2048-256", 0);
    let ec = load("ecdsa", 0);
    let mut seeds = seeds;
    seeds.push(crate::c12::ed25519_spki(ctx.km.pk("k1").as_bytes()));
    seeds.push(crate::c12::rsa_spki(rsa.public().as_bytes()));
    seeds.push(crate::c12::ecdsa_spki(ec.public().as_bytes()));
    seeds.push(crate::c12::pem_of_spki(&crate::c12::rsa_spki(rsa.public().as_bytes())).into_bytes());
    seeds.push(raw_der("ed25519", 0).to_vec());
    seeds.push(raw_der("ecdsa", 0).to_vec());
    seeds.push(serde_json::to_vec(rsa.public()).unwrap());
    let n_doc_seeds = 7;
    let mut bad = vec![];
    let mut counts = [0usize; 3];
    for i in 0..n {
        let mut b = seeds[i % seeds.len()].clone();
        let ops = rng.gen_range(1..=3);
        for _ in 0..ops {
            if b.is_empty() {
                break;
            }
            match rng.gen_range(0..6) {
                0 => {
                    let k = rng.gen_range(0..b.len());
                    b[k] ^= 1 << rng.gen_range(0..8);
                }
                1 => {
                    let k = rng.gen_range(0..b.len());
                    b.truncate(k);
                }
                2 => {
                    let other = &seeds[rng.gen_range(0..seeds.len())];
                    let a = rng.gen_range(0..other.len());
                    let e = rng.gen_range(a..other.len());
                    let k = rng.gen_range(0..=b.len());
                    let chunk = other[a..e].to_vec();
                    b.splice(k..k, chunk);
                }
                3 => {
                    let a = rng.gen_range(0..b.len());
                    let e = rng.gen_range(a..b.len());
                    b.drain(a..e);
                }
                4 => {
                    let k = rng.gen_range(0..b.len());
                    let interesting: [&[u8]; 8] = [b"\xc3\xa9", b"\\u0000", b"[", b"99999999999999999999", b"-1", b"\"\"", b"\xff", b"1e400"];
                    let ins = interesting[rng.gen_range(0..interesting.len())];
                    b.splice(k..k, ins.iter().cloned());
                }
                _ => {
                    let k = rng.gen_range(0..b.len());
                    b[k] = rng.gen();
                }
            }
        }
        let r = offer_bytes(&ctx, &b);
        let r2 = if i % seeds.len() >= n_doc_seeds || i % 4 == 0 { key_import_all(&b) } else { "error" };
        for x in [r, r2] {
            match x {
                "value" => counts[0] += 1,
                "error" => counts[1] += 1,
                _ => {
                    counts[2] += 1;
                    if bad.len() < 5 {
                        bad.push(json!({"i": i, "hex": data_encoding::HEXLOWER.encode(&b[..b.len().min(400)])}));
                    }
                }
            }
        }
    }
    json!({"n": n, "value": counts[0], "error": counts[1], "panic": counts[2], "bad": bad})
}
