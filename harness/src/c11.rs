//! C11: signed bytes = OLPC canonical JSON (CJson.tla Olpc).
use crate::common::*;
use crate::keys;
use crate::olpc::*;
use in_toto::models::byproducts::ByProducts;
use in_toto::models::inspection::Inspection;
use in_toto::models::rule::ArtifactRule;
use in_toto::models::step::{Command, Step};
use in_toto::models::{LayoutMetadataBuilder, LinkMetadataBuilder, Metablock, MetadataWrapper, VirtualTargetPath};
use rand::Rng;
use ring::signature::{Ed25519KeyPair, KeyPair};
use serde_json::{json, Value};
use std::collections::BTreeMap;

pub struct Ctx {
    sk: in_toto::crypto::PrivateKey,
    raw: Ed25519KeyPair,
    rng: rand::rngs::StdRng,
}

pub fn doc_with(field: &str, s: &str) -> MetadataWrapper {
    if let Some(f) = field.strip_prefix("link.") {
        let mut b = LinkMetadataBuilder::new().name("step".to_string());
        // (the one integer of a link - the return value - takes another class per field: zero, negative, extremes)
        let retval = match f {
            "name" => 0,
            "command" => -1,
            "stdout" => i32::MIN,
            "stderr" => i32::MAX,
            "env_key" => -128,
            "path" => -9,
            _ => 1,
        };
        let mut byp = ByProducts::new().set_return_value(retval).set_stdout("out\n".to_string()).set_stderr(String::new());
        let mut cmd = vec!["tool".to_string(), "--flag".to_string()];
        let mut env: Option<BTreeMap<String, String>> = None;
        let mut prods = artifacts(&json!([{"p": "a.out", "d": "h1"}]));
        match f {
            "name" => b = b.name(s.to_string()),
            "command" => cmd.push(s.to_string()),
            "stdout" => byp = byp.set_stdout(s.to_string()),
            "stderr" => byp = byp.set_stderr(s.to_string()),
            "env_key" => env = Some(BTreeMap::from([(s.to_string(), "v".to_string())])),
            "env_val" => env = Some(BTreeMap::from([("K".to_string(), s.to_string())])),
            "path" => {
                prods.insert(VirtualTargetPath::new(s.to_string()).unwrap(), target("h2"));
            }
            "byp_other" => byp = byp.set_other_field("extra".to_string(), s.to_string()),
            _ => panic!("field {field}"),
        }
        MetadataWrapper::Link(b.products(prods).byproducts(byp).command(Command::from(cmd)).env(env).build().unwrap())
    } else {
        let f = field.strip_prefix("layout.").unwrap();
        let mut b = LayoutMetadataBuilder::new().expires(crate::verify::t0()).readme("r".to_string());
        let mut step = Step::new("s1").threshold(1).expected_command(Command::from("c x"));
        let mut insp = Inspection::new("i1").run(Command::from("true"));
        match f {
            "readme" => b = b.readme(s.to_string()),
            "step_name" => step.name = s.to_string(),
            "command" => step = step.expected_command(Command::from(vec!["c".to_string(), s.to_string()])),
            "rule_pattern" => step = step.add_expected_product(ArtifactRule::Create(s.into())),
            "inspect_run" => insp = insp.run(Command::from(vec!["sh".to_string(), s.to_string()])),
            _ => panic!("field {field}"),
        }
        // the key table is signed content too: keys in every construction form
        for k in crate::lifecycle::listed_key_forms() {
            b = b.add_key(k);
        }
        MetadataWrapper::Layout(b.add_step(step).add_inspect(insp).build().unwrap())
    }
}

impl Ctx {
    pub fn new() -> Ctx {
        let der = keys::raw_der("ed25519", 0);
        Ctx {
            sk: keys::load("ed25519", 0),
            raw: Ed25519KeyPair::from_pkcs8(der).unwrap(),
            rng: rng(11),
        }
    }

    /// the document that `doc_with(field, s)` is MEANT to be, assembled without the library touching `s`: the
    /// JSON form of the same document built around a harmless placeholder, with the placeholder replaced by `s`
    /// in every string and member name
    pub fn intended_json(field: &str, s: &str) -> Value {
        const PH: &str = "ZZPLACEHOLDERZZ";
        fn subst(v: &Value, s: &str) -> Value {
            match v {
                Value::String(t) => Value::String(t.replace(PH, s)),
                Value::Array(a) => Value::Array(a.iter().map(|x| subst(x, s)).collect()),
                Value::Object(o) => Value::Object(o.iter().map(|(k, x)| (k.replace(PH, s), subst(x, s))).collect()),
                other => other.clone(),
            }
        }
        subst(&serde_json::to_value(doc_with(field, PH)).unwrap(), s)
    }

    /// a document signed by a reference implementation (raw ed25519 over the reference bytes of the intended
    /// JSON) must verify here once it is read from its text
    pub fn check_reference_signed(&self, intended: &Value) -> String {
        let reference = olpc_bytes(intended);
        let sig_ref = self.raw.sign(&reference);
        let text = json!({"signatures": [{"keyid": keys::kid_str(self.sk.key_id()), "sig": data_encoding::HEXLOWER.encode(sig_ref.as_ref())}],
                          "signed": intended}).to_string();
        let r = guarded(|| match serde_json::from_str::<Metablock>(&text) {
            Ok(b) => b.verify(1, [self.sk.public()]).map(|_| ()).map_err(|e| e.to_string()),
            Err(e) => Err(format!("does not parse: {e}")),
        });
        match r {
            Ok(Ok(())) => "ok".to_string(),
            Ok(Err(e)) => format!("err: {e}"),
            Err(p) => format!("panic: {p}"),
        }
    }

    /// checks (1) a signature made directly over the reference bytes is accepted, (2) the library's own
    /// (deterministic, ed25519) signature equals it
    pub fn check_doc(&self, meta: &MetadataWrapper) -> (String, bool) {
        let signed = serde_json::to_value(meta).unwrap();
        let reference = olpc_bytes(&signed);
        let sig_ref = self.raw.sign(&reference);
        assert_eq!(self.raw.public_key().as_ref(), self.sk.public().as_bytes());
        let block = Metablock {
            signatures: vec![keys::make_sig(&keys::kid_str(self.sk.key_id()), sig_ref.as_ref())],
            metadata: meta.clone(),
        };
        let r = guarded(|| block.verify(1, [self.sk.public()]));
        let own = guarded(|| Metablock::new(meta.clone(), &[&self.sk]));
        let mut same = matches!(&own, Ok(Ok(mb)) if mb.signatures.len() == 1 && mb.signatures[0].value().as_bytes() == sig_ref.as_ref());
        // every signing entry point signs the same bytes: the builder from a value, and the builder from serialised
        // metadata - written plainly, in the interchange's canonical form, and laid out for reading
        use in_toto::interchange::{DataInterchange, Json};
        let mut raws: Vec<Vec<u8>> = vec![serde_json::to_vec(meta).unwrap(), serde_json::to_vec_pretty(meta).unwrap()];
        if let Ok(c) = Json::canonicalize(&signed) {
            raws.push(c);
        }
        let mut built: Vec<std::result::Result<Metablock, String>> = vec![guarded(|| {
            in_toto::models::MetablockBuilder::from_metadata(meta.clone().into_trait()).sign(&[&self.sk]).map(|b| b.build())
        })
        .map_err(|p| p.to_string())
        .and_then(|r| r.map_err(|e| e.to_string()))];
        for raw in &raws {
            built.push(
                guarded(|| in_toto::models::MetablockBuilder::from_raw_metadata(raw).and_then(|b| b.sign(&[&self.sk])).map(|b| b.build()))
                    .map_err(|p| p.to_string())
                    .and_then(|r| r.map_err(|e| e.to_string())),
            );
        }
        for b in &built {
            match b {
                Ok(mb) if mb.signatures.len() == 1 && mb.signatures[0].value().as_bytes() == sig_ref.as_ref() && mb.metadata == *meta => {}
                _ => same = false,
            }
        }
        (outcome(&r).to_string(), same)
    }

    /// sibling member names (CJson.tla, member order): the reference renderer must write them in the
    /// order TLC computed, and the library must sign exactly those bytes
    fn run_order(&mut self, scn: &Value) -> Value {
        let reps = std::env::var("ITV_REPS").ok().and_then(|s| s.parse().ok()).unwrap_or(3);
        let mut outs = vec![];
        let mut same_all = true;
        let mut order_ok = true;
        let mut sample = String::new();
        for _ in 0..reps {
            // one member per order class, the same for every name of the scenario
            let pick = |rng: &mut rand::rngs::StdRng, m: &[u32]| char::from_u32(m[rng.gen_range(0..m.len())]).unwrap();
            let a = pick(&mut self.rng, &[0x21, 0x2d, 0x41, 0x5f, 0x6b, 0x7e]);
            let u = pick(&mut self.rng, &[0x80, 0xe9, 0x7ff, 0x800, 0x4e2d, 0xd7ff]);
            let h = pick(&mut self.rng, &[0xe000, 0xf8ff, 0xff21, 0xfffd, 0xffff]);
            let sp = pick(&mut self.rng, &[0x10000, 0x1f600, 0x10ffff]);
            let conc = |name: &Value| -> String {
                name.as_array().unwrap().iter().map(|c| match c.as_str().unwrap() {
                    "A" => a,
                    "D" => '\u{7f}',
                    "U" => u,
                    "H" => h,
                    "S" => sp,
                    o => panic!("order class {o}"),
                }).collect()
            };
            let names: Vec<String> = scn["s"].as_array().unwrap().iter().map(conc).collect();
            let want: Vec<String> = scn["ref"].as_array().unwrap().iter().map(conc).collect();
            let mut env = BTreeMap::new();
            let mut prods = artifacts(&json!([]));
            let mut byp = ByProducts::new().set_return_value(0).set_stdout(String::new()).set_stderr(String::new());
            for n in &names {
                env.insert(format!("k{n}"), "v".to_string());
                prods.insert(VirtualTargetPath::new(format!("d/{n}")).unwrap(), target("h1"));
                byp = byp.set_other_field(format!("x{n}"), "o".to_string());
            }
            let meta = MetadataWrapper::Link(
                LinkMetadataBuilder::new().name("step".to_string()).products(prods).byproducts(byp).command(Command::from("tool")).env(Some(env)).build().unwrap(),
            );
            // binding to the specification: the reference renderer writes the members in TLC's order
            let signed = serde_json::to_value(&meta).unwrap();
            let text = String::from_utf8(olpc_bytes(&signed)).unwrap();
            for (pre, post) in [("\"k", "\":\"v\""), ("\"d/", "\":{"), ("\"x", "\":\"o\"")] {
                let pos: Vec<Option<usize>> = want.iter().map(|n| text.find(&format!("{pre}{n}{post}"))).collect();
                if pos.iter().any(|p| p.is_none()) || pos.windows(2).any(|w| w[0] >= w[1]) {
                    order_ok = false;
                }
            }
            let (o, same) = self.check_doc(&meta);
            if !outs.contains(&o) {
                outs.push(o);
            }
            same_all &= same;
            sample = names.join(" | ");
        }
        json!({"outs": outs, "same_sig": same_all, "atoms_ok": order_ok, "sample": sample})
    }

    pub fn run(&mut self, scn: &Value) -> Value {
        let field = scn["field"].as_str().unwrap();
        if field == "order" {
            return self.run_order(scn);
        }
        let mut outs = vec![];
        let mut same_all = true;
        let mut atoms_ok = true;
        let mut sample = String::new();
        // several members per class sequence
        let reps = std::env::var("ITV_REPS").ok().and_then(|s| s.parse().ok()).unwrap_or(3);
        for _ in 0..reps {
            let s = instantiate(&scn["s"], &mut self.rng);
            // binding to CJson.tla: the reference rendering of this string is Olpc(s)
            let mut body = vec![];
            olpc_str(&s, &mut body);
            let body = String::from_utf8(body).unwrap();
            let atoms = atoms_of_olpc_body(&body[1..body.len() - 1]);
            let want: Vec<String> = scn["ref"].as_array().unwrap().iter().map(|a| a.as_str().unwrap().to_string()).collect();
            if atoms != want {
                atoms_ok = false;
            }
            let meta = doc_with(field, &s);
            let (o, same) = self.check_doc(&meta);
            if !outs.contains(&o) {
                outs.push(o);
            }
            same_all &= same;
            // ... and against the document as INTENDED (not as the library's own JSON form has it): signed by a
            // reference implementation it verifies here, and the library signs those very bytes
            let intended = Self::intended_json(field, &s);
            let o2 = self.check_reference_signed(&intended);
            if o2 != "ok" && !outs.contains(&o2) {
                outs.push(o2);
            }
            let own = guarded(|| Metablock::new(meta.clone(), &[&self.sk]));
            let want = self.raw.sign(&olpc_bytes(&intended));
            if !matches!(&own, Ok(Ok(mb)) if mb.signatures.len() == 1 && mb.signatures[0].value().as_bytes() == want.as_ref()) {
                same_all = false;
            }
            sample = s;
        }
        json!({"outs": outs, "same_sig": same_all, "atoms_ok": atoms_ok, "sample": sample})
    }

    /// every Unicode scalar value at least once, packed into documents (thorough tier)
    pub fn all_scalars(&mut self, stride: u32) -> Value {
        let mut bad = vec![];
        let mut docs = 0;
        let mut chars = 0u32;
        let mut cur = String::new();
        let mut first = 0u32;
        let mut cp = 0u32;
        let fields = ["link.stdout", "link.name", "link.path", "layout.readme", "link.env_val", "link.command"];
        while cp <= 0x10ffff {
            if let Some(c) = char::from_u32(cp) {
                if cur.is_empty() {
                    first = cp;
                }
                cur.push(c);
                chars += 1;
            }
            // every code point below U+0300 (all controls, Latin-1, the escape-relevant ASCII), strided above
        cp += if cp < 0x300 { 1 } else { stride };
            if cur.chars().count() >= 1000 || cp > 0x10ffff {
                let field = fields[docs % fields.len()];
                let (o, same) = self.check_doc(&doc_with(field, &cur));
                if (o != "ok" || !same) && bad.len() < 8 {
                    // narrow down to single characters
                    for ch in cur.chars() {
                        let (o1, s1) = self.check_doc(&doc_with(field, &ch.to_string()));
                        if o1 != "ok" || !s1 {
                            bad.push(json!({"cp": ch as u32, "class": class_of(ch), "field": field, "accepted": o1, "same_sig": s1}));
                            if bad.len() >= 8 {
                                break;
                            }
                        }
                    }
                    if bad.is_empty() {
                        bad.push(json!({"from": first, "field": field, "accepted": o, "same_sig": same}));
                    }
                }
                docs += 1;
                cur.clear();
            }
        }
        let _ = self.rng.gen::<u8>();
        json!({"docs": docs, "chars": chars, "bad": bad})
    }
}
