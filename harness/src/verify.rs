//! Verify.tla scenarios -> real keys, really signed metadata, real files, in_toto_verify.
use crate::common::*;
use crate::keys::*;
use crate::model;
use chrono::{DateTime, Duration, TimeZone, Utc};
use in_toto::crypto::{KeyId, PublicKey, Signature};
use in_toto::models::byproducts::ByProducts;
use in_toto::models::inspection::Inspection;
use in_toto::models::step::{Command, Step};
use in_toto::models::{
    LayoutMetadata, LayoutMetadataBuilder, LinkMetadata, LinkMetadataBuilder, Metablock, MetadataWrapper,
};
use ring::digest;
use serde_json::{json, Value};
use std::collections::HashMap;
use std::path::{Path, PathBuf};
use std::str::FromStr;

pub const ALL_NAMES: [&str; 7] = ["k1", "k2", "k3", "kx", "o1", "o2", "o3"];

/// Reference instant.  Pinned-clock runs use a fixed date; ITV_CLOCK=real runs use the
/// wall clock at process start (truncated to the second) and no clock hook at all.
pub fn t0() -> DateTime<Utc> {
    use std::sync::OnceLock;
    static T0: OnceLock<DateTime<Utc>> = OnceLock::new();
    *T0.get_or_init(|| {
        if std::env::var("ITV_CLOCK").map(|v| v == "real").unwrap_or(false) {
            Utc.timestamp_opt(Utc::now().timestamp(), 0).unwrap()
        } else {
            Utc.with_ymd_and_hms(2031, 3, 4, 5, 6, 7).unwrap()
        }
    })
}

pub fn sha256_hex(b: &[u8]) -> String {
    data_encoding::HEXLOWER.encode(digest::digest(&digest::SHA256, b).as_ref())
}

/// digest symbol -> the sha256 of the file content that symbol stands for
pub fn sym_digest(sym: &str) -> Vec<u8> {
    let content: &[u8] = if sym == "he" { b"" } else { sym.as_bytes() };
    digest::digest(&digest::SHA256, content).as_ref().to_vec()
}

/// one artifact description; "s512:<sym>" = the same content recorded with sha512 only,
/// "both:<sym>" = recorded with sha256 and sha512
fn target_of(d: &str) -> in_toto::models::TargetDescription {
    use in_toto::crypto::{HashAlgorithm, HashValue};
    let mut t = HashMap::new();
    // "mix:<a>:<b>": sha256 of <a> together with sha512 of <b>
    if let Some(x) = d.strip_prefix("mix:") {
        let (a, b) = x.split_once(':').expect("mix:a:b");
        t.insert(HashAlgorithm::Sha256, HashValue::new(digest::digest(&digest::SHA256, a.as_bytes()).as_ref().to_vec()));
        t.insert(HashAlgorithm::Sha512, HashValue::new(digest::digest(&digest::SHA512, b.as_bytes()).as_ref().to_vec()));
        return t;
    }
    let (algs, sym): (&[&str], &str) = if let Some(x) = d.strip_prefix("s512:") {
        (&["512"], x)
    } else if let Some(x) = d.strip_prefix("both:") {
        (&["256", "512"], x)
    } else {
        (&["256"], d)
    };
    // "<sym>.f" / ".m" / ".l": the digest of <sym> with its first / a middle / its last byte changed;
    // "<sym>.t": that digest without its last byte - digests that are nearly the one of <sym>
    let (sym, near) = match sym.rsplit_once('.') {
        Some((b, n)) if ["f", "m", "l", "t"].contains(&n) => (b, n),
        _ => (sym, ""),
    };
    let content: &[u8] = if sym == "he" { b"" } else { sym.as_bytes() };
    let tweak = |mut v: Vec<u8>| -> Vec<u8> {
        let n = v.len();
        match near {
            "f" => v[0] ^= 0x80,
            "m" => v[n / 2] ^= 0x01,
            "l" => v[n - 1] ^= 0x01,
            "t" => {
                v.pop();
            }
            _ => {}
        }
        v
    };
    for a in algs {
        if *a == "256" {
            t.insert(HashAlgorithm::Sha256, HashValue::new(tweak(digest::digest(&digest::SHA256, content).as_ref().to_vec())));
        } else {
            t.insert(HashAlgorithm::Sha512, HashValue::new(tweak(digest::digest(&digest::SHA512, content).as_ref().to_vec())));
        }
    }
    t
}

fn arts(v: &Value) -> std::collections::BTreeMap<in_toto::models::VirtualTargetPath, in_toto::models::TargetDescription> {
    let mut m = std::collections::BTreeMap::new();
    for a in v.as_array().map(|a| a.as_slice()).unwrap_or(&[]) {
        m.insert(
            in_toto::models::VirtualTargetPath::new(a["p"].as_str().unwrap().to_string()).unwrap(),
            target_of(a["d"].as_str().unwrap()),
        );
    }
    m
}

pub struct Ctx {
    pub km: KeyMap,
    family: String,
    order: Vec<String>,
    bad_forms: std::cell::Cell<usize>,
}

fn names_for(prop: &str) -> Vec<&'static str> {
    match prop {
        "C01" => vec!["o1", "o2", "o3", "k1", "k2", "k3", "kx"],
        _ => ALL_NAMES.to_vec(),
    }
}

impl Ctx {
    pub fn new(family: &str, prop: &str) -> Ctx {
        let names = names_for(prop);
        Ctx { km: KeyMap::new(family, &names), family: family.to_string(), order: names.iter().map(|s| s.to_string()).collect(), bad_forms: std::cell::Cell::new(0) }
    }

    fn ensure(&mut self, prop: &str) {
        let names = names_for(prop);
        if self.order.iter().map(|s| s.as_str()).collect::<Vec<_>>() != names {
            *self = Ctx::new(&self.family.clone(), prop);
        }
    }

    fn link_meta(&self, d: &Value, variant: &str) -> LinkMetadata {
        let mut name = d["name"].as_str().unwrap_or("").to_string();
        let mut prods = arts(&d["prods"]);
        let mut mats = arts(&d["mats"]);
        let mut cmd = d["cmd"].as_str().unwrap_or("").to_string();
        let mut byp = d["byp"].as_str().unwrap_or("").to_string();
        let mut env = None;
        // structure-versus-content near collision: one argument holding the text `a","b` (as signed)
        // against the two arguments `a`, `b` (as shipped)
        let mut cmd_extra: Vec<String> = vec![];
        // `variant` != "none": the content BEFORE the post-signing edit of that field
        match variant {
            "none" => {}
            "cmd_requote" => cmd_extra = vec!["a\",\"b".to_string()],
            "cmd_split" => cmd_extra = vec!["a".to_string(), "b".to_string()],
            // the same words distributed differently over the arguments / an empty argument more
            "cmd_respace" => cmd_extra = vec!["a b".to_string()],
            "cmd_empty_arg" => cmd_extra = vec!["a".to_string(), String::new(), "b".to_string()],
            "product" => {
                prods.insert("zz.extra".into(), {
                    let mut t = HashMap::new();
                    t.insert(in_toto::crypto::HashAlgorithm::Sha256, in_toto::crypto::HashValue::new(sym_digest("h9")));
                    t
                });
            }
            "material" => {
                mats.insert("zz.extra".into(), {
                    let mut t = HashMap::new();
                    t.insert(in_toto::crypto::HashAlgorithm::Sha256, in_toto::crypto::HashValue::new(sym_digest("h9")));
                    t
                });
            }
            "name" => name.push_str("-orig"),
            "command" => cmd.push_str(" --orig"),
            "byproducts" => byp.push_str("orig"),
            "env" => {
                let mut e = std::collections::BTreeMap::new();
                e.insert("k".to_string(), "v".to_string());
                env = Some(e);
            }
            _ => name.push_str("-orig"),
        }
        LinkMetadataBuilder::new()
            .name(name)
            .materials(mats)
            .products(prods)
            .command({
                let mut c: Vec<String> = cmd.split_whitespace().map(|t| t.to_string()).collect();
                c.extend(cmd_extra);
                Command::from(c)
            })
            // (the error stream always holds what tools print to a terminal: escape sequences and other control characters)
            .byproducts(ByProducts::new().set_stdout(byp).set_stderr("\u{1b}[31mwarn\u{1b}[0m \u{1}\u{8}\u{7f}".to_string()).set_return_value(0))
            .env(env)
            .build()
            .unwrap()
    }

    fn inspection_cmd(i: &Value) -> Vec<String> {
        let c = &i["cmd"];
        let name = i["name"].as_str().unwrap();
        if c["kind"] == "notfound" {
            return vec!["/nonexistent/itv-no-such-command".to_string()];
        }
        let path = c["path"].as_str().unwrap_or("");
        let dg = c["digest"].as_str().unwrap_or("");
        let eff = match c["effect"].as_str().unwrap_or("none") {
            "create" => format!("printf %s '{}' > '{}'; ", dg, path),
            "modify" => format!("if [ -e '{0}' ]; then printf %s '{1}' > '{0}'; fi; ", path, dg),
            "delete" => format!("rm -f '{}'; ", path),
            _ => String::new(),
        };
        let tail = if c["kind"] == "signal" { "kill -9 $$".to_string() } else { format!("exit {}", c["code"].as_i64().unwrap_or(0)) };
        vec!["sh".to_string(), "-c".to_string(), format!(": > 'S.{}'; {}{}", name, eff, tail)]
    }

    fn layout_meta(&self, d: &Value, variant: &str) -> LayoutMetadata {
        let expires = instant_of(d["expires"].as_i64().unwrap());
        let mut b = LayoutMetadataBuilder::new().expires(expires).readme("read\u{1b}me\u{2}".to_string());
        for k in d["keys"].as_array().unwrap() {
            b = b.add_key(self.km.pk(k.as_str().unwrap()).clone());
        }
        let mut steps = vec![];
        for s in d["steps"].as_array().unwrap() {
            let mut st = Step::new(s["name"].as_str().unwrap())
                .threshold(s["thr"].as_u64().unwrap() as u32)
                .expected_materials(model::rules(&s["em"]))
                .expected_products(model::rules(&s["ep"]))
                .expected_command(Command::from(format!("c.{}", s["name"].as_str().unwrap()).as_str()));
            for k in s["pubkeys"].as_array().unwrap() {
                st = st.add_key(self.km.id(k.as_str().unwrap()));
            }
            steps.push(st);
        }
        let mut insps = vec![];
        for i in d["inspect"].as_array().unwrap() {
            insps.push(
                Inspection::new(i["name"].as_str().unwrap())
                    .run(Command::from(Self::inspection_cmd(i)))
                    .expected_materials(model::rules(&i["em"]))
                    .expected_products(model::rules(&i["ep"])),
            );
        }
        // content before the post-signing edit of the named field
        let mut extra_key = None;
        match variant {
            "none" => {}
            "step_name" => {
                if let Some(s) = steps.first_mut() {
                    s.name.push_str("-orig");
                }
            }
            "threshold" => {
                if let Some(s) = steps.first_mut() {
                    s.threshold += 1;
                }
            }
            "pubkeys" => {
                if let Some(s) = steps.first_mut() {
                    s.pub_keys.push(self.km.id("kx"));
                }
            }
            "command" => {
                if let Some(s) = steps.first_mut() {
                    s.expected_command = Command::from("something else");
                }
            }
            "cmd_requote" | "cmd_split" | "cmd_respace" | "cmd_empty_arg" => {
                let extra: Vec<String> = match variant {
                    "cmd_requote" => vec!["a\",\"b".to_string()],
                    "cmd_respace" => vec!["a b".to_string()],
                    "cmd_empty_arg" => vec!["a".to_string(), String::new(), "b".to_string()],
                    _ => vec!["a".to_string(), "b".to_string()],
                };
                if let Some(s) = steps.first_mut() {
                    let mut c = vec![format!("c.{}", s.name)];
                    c.extend(extra);
                    s.expected_command = Command::from(c);
                } else {
                    b = b.readme(format!("variant {variant}"));
                }
            }
            "mrule" => {
                if let Some(s) = steps.first_mut() {
                    s.expected_materials.push(in_toto::models::rule::ArtifactRule::Disallow("*".into()));
                }
            }
            "prule" => {
                if let Some(s) = steps.last_mut() {
                    s.expected_products.insert(0, in_toto::models::rule::ArtifactRule::Disallow("*".into()));
                }
            }
            // the first MATCH rule gains a source clause whose prefix is the empty string
            "match_in_empty" => {
                let mut done = false;
                for st in steps.iter_mut() {
                    for r in st.expected_materials.iter_mut().chain(st.expected_products.iter_mut()) {
                        if let in_toto::models::rule::ArtifactRule::Match { in_src, .. } = r {
                            if !done && in_src.is_none() {
                                *in_src = Some(String::new());
                                done = true;
                            }
                        }
                    }
                }
                if !done {
                    b = b.readme("variant match_in_empty".to_string());
                }
            }
            "keys_add" => extra_key = Some("kx"),
            "readme" => b = b.readme("readme (as signed)".to_string()),
            "expires" => b = b.expires(expires + Duration::seconds(1)),
            "expires_minus" => b = b.expires(expires - Duration::seconds(1)),
            "expires_day" => b = b.expires(expires + Duration::days(1)),
            "expires_day_back" => b = b.expires(expires - Duration::days(1)),
            "expires_year" | "expires_year_back" => {
                use chrono::Datelike;
                let dy = if variant == "expires_year" { 1 } else { -1 };
                b = b.expires(expires.with_year(expires.year() + dy).unwrap_or(expires + Duration::days(365 * dy as i64)));
            }
            "insp_run" => {
                if let Some(i) = insps.first_mut() {
                    i.run = Command::from("true");
                } else {
                    b = b.readme("x".to_string());
                }
            }
            "insp_rule" => {
                if let Some(i) = insps.first_mut() {
                    i.expected_products.push(in_toto::models::rule::ArtifactRule::Disallow("*".into()));
                } else {
                    b = b.readme("y".to_string());
                }
            }
            "add_step" => steps.push(Step::new("phantom").threshold(0)),
            _ => b = b.readme(format!("variant {variant}")),
        }
        if let Some(k) = extra_key {
            b = b.add_key(self.km.pk(k).clone());
        }
        b.steps(steps).inspects(insps).build().unwrap()
    }

    fn wrapper(&self, d: &Value, variant: &str) -> MetadataWrapper {
        if d["typ"] == "layout" {
            MetadataWrapper::Layout(self.layout_meta(d, variant))
        } else {
            MetadataWrapper::Link(self.link_meta(d, variant))
        }
    }

    /// `w` as a consumer of its JSON form sees it, the steps' key lists in the scenario's order
    fn via_text(&self, d: &Value, w: MetadataWrapper) -> MetadataWrapper {
        let mut v = match serde_json::to_value(&w) {
            Ok(v) => v,
            Err(_) => return w,
        };
        if d["typ"] == "layout" {
            if let (Some(steps), Some(dsteps)) = (v["steps"].as_array_mut(), d["steps"].as_array()) {
                for (st, ds) in steps.iter_mut().zip(dsteps.iter()) {
                    let want: Vec<String> = ds["pubkeys"].as_array().unwrap().iter().map(|k| self.km.idstr(k.as_str().unwrap())).collect();
                    let have: Vec<String> = st["pubkeys"].as_array().map(|a| a.iter().map(|x| x.as_str().unwrap_or("").to_string()).collect()).unwrap_or_default();
                    let mut a = want.clone();
                    let mut b = have.clone();
                    a.sort();
                    b.sort();
                    if a == b {
                        st["pubkeys"] = json!(want);
                    }
                }
            }
        }
        serde_json::from_value::<MetadataWrapper>(v).unwrap_or(w)
    }

    /// the JSON text of document d as shipped
    fn doc_text(&self, d: &Value) -> String {
        if d["typ"] == "garbage" {
            return "{\"signatures\": [ this is not json".to_string();
        }
        let edit = d["edit"].as_str().unwrap_or("none");
        // a "requote" edit ships the split form of what was signed in joined form
        let shipped = self.wrapper(d, if matches!(edit, "cmd_requote" | "cmd_respace" | "cmd_empty_arg") { "cmd_split" } else { "none" });
        // ("match_in_empty": the clause is in the shipped document, not in the signed one)
        let mut signed_over = self.wrapper(d, if edit == "match_in_empty" { "none" } else { edit });
        // a layout whose text spells `expires` in another notation is signed the way its owner would
        // sign it with this library: parse the notated text, sign what was parsed
        let fmt = d["fmt"].as_str().unwrap_or("Z");
        if d["typ"] == "layout" && fmt != "Z" && edit == "none" {
            let mut v = serde_json::to_value(&shipped).unwrap();
            let inst = instant_of(d["expires"].as_i64().unwrap());
            v["expires"] = json!(spell_instant(inst, fmt));
            if let Ok(parsed) = serde_json::from_str::<MetadataWrapper>(&v.to_string()) {
                signed_over = parsed;
            }
        }
        // the documents reach the verifier as TEXT: what the builders return is re-read from its JSON form, with
        // list-valued fields in the order the scenario gives them (the builders' own ordering must not matter)
        let shipped = self.via_text(d, shipped);
        let signed_over = self.via_text(d, signed_over);
        if edit != "none" && edit != "match_in_empty" {
            assert!(shipped != signed_over, "edit {edit} must change the content");
        }
        let mut sigs: Vec<Signature> = vec![];
        // positions of signatures whose corruption is made in the TEXT (their hex string gets one more digit)
        let mut odd_hex: Vec<usize> = vec![];
        for s in d["sigs"].as_array().unwrap() {
            let by = s["by"].as_str().unwrap();
            let mb = Metablock::new(signed_over.clone(), &[self.km.sk(by)]).unwrap();
            let mut v = mb.signatures[0].value().as_bytes().to_vec();
            if !s["ok"].as_bool().unwrap() {
                // the forms an invalid signature takes, in turn: one bit flipped; empty; last byte missing;
                // all zero; one byte too long; the genuine value with one hexadecimal digit appended to its text
                let form = self.bad_forms.get();
                self.bad_forms.set(form + 1);
                // (the text-level form only on layouts: a link file that cannot be read fails the verification as a
                // whole, whereas a link with an invalid signature merely does not count - the forms must be equivalent)
                match if d["typ"] == "layout" { form % 6 } else { form % 5 } {
                    5 => odd_hex.push(sigs.len()),
                    0 => {
                        let i = v.len() / 3;
                        v[i] ^= 0x10;
                    }
                    1 => v.clear(),
                    2 => {
                        v.pop();
                    }
                    3 => v.iter_mut().for_each(|b| *b = 0),
                    _ => v.push(0x01),
                }
            }
            sigs.push(make_sig(&self.km.idstr(s["kid"].as_str().unwrap()), &v));
        }
        // replay prelude: the content these signatures were really made over is verified once, successfully, in
        // this process before the shipped (altered) content is offered with the same signatures
        if edit != "none" {
            let genuine = Metablock { signatures: sigs.clone(), metadata: signed_over.clone() };
            for s in d["sigs"].as_array().unwrap() {
                let by = s["by"].as_str().unwrap();
                let _ = guarded(|| genuine.verify(1, [self.km.pk(by)]).is_ok());
            }
        }
        let block = Metablock { signatures: sigs, metadata: shipped };
        let mut val = serde_json::to_value(&block).unwrap();
        if d["typ"] == "layout" {
            let fmt = d["fmt"].as_str().unwrap_or("Z");
            if fmt != "Z" {
                let inst = instant_of(d["expires"].as_i64().unwrap());
                val["signed"]["expires"] = json!(spell_instant(inst, fmt));
            }
        }
        for &i in &odd_hex {
            if let Some(t) = val["signatures"][i]["sig"].as_str().map(|t| format!("{t}7")) {
                val["signatures"][i]["sig"] = json!(t);
            }
        }
        // "match_in_empty": the edit is made in the TEXT - the first MATCH rule without a source clause gets one
        // whose prefix is the empty string
        if edit == "match_in_empty" {
            let mut done = false;
            if let Some(steps) = val["signed"]["steps"].as_array_mut() {
                for st in steps.iter_mut() {
                    for side in ["expected_materials", "expected_products"] {
                        if let Some(rules) = st[side].as_array_mut() {
                            for r in rules.iter_mut() {
                                let a = r.as_array_mut().unwrap();
                                if !done && a.first() == Some(&json!("MATCH")) && a.get(2) != Some(&json!("IN")) {
                                    a.insert(2, json!("IN"));
                                    a.insert(3, json!(""));
                                    done = true;
                                }
                            }
                        }
                    }
                }
            }
            if !done {
                val["signed"]["readme"] = json!("edited");
            }
        }
        serde_json::to_string_pretty(&val).unwrap()
    }

    pub fn run(&mut self, line: &Value, want_events: bool, pin_clock: bool) -> Value {
        let prop = line["prop"].as_str().unwrap_or("");
        self.ensure(prop);
        let scn = &line["scn"];
        let tmp = tempfile::tempdir().unwrap();
        let root = tmp.path().canonicalize().unwrap();
        let link_dir = root.join("links");
        let work = root.join("work");
        std::fs::create_dir_all(&link_dir).unwrap();
        std::fs::create_dir_all(&work).unwrap();
        let docs = scn["docs"].as_array().unwrap();
        let texts: Vec<String> = docs.iter().map(|d| self.doc_text(d)).collect();
        // C13 "history": the same paths first hold a DIFFERENT directory content of the same shape (digest
        // symbols h1 / h2 swapped in every link), which is verified once; then the files are overwritten with
        // the scenario's own content, modification times preserved.  The verdict must be that of the content.
        let history = line["history"] == true;
        let prior_texts: Vec<String> = if history {
            docs.iter()
                .map(|d| {
                    if d["typ"] == "link" {
                        let t = d.to_string().replace("\"h1\"", "\"hX\"").replace("\"h2\"", "\"h1\"").replace("\"hX\"", "\"h2\"");
                        self.doc_text(&serde_json::from_str(&t).unwrap())
                    } else {
                        self.doc_text(d)
                    }
                })
                .collect()
        } else {
            vec![]
        };
        let write_dirs = |which: &Vec<String>, keep_mtime: bool| {
            for dir in scn["dirs"].as_array().unwrap() {
                let mut p = link_dir.clone();
                for c in dir["path"].as_array().unwrap() {
                    let c = c.as_str().unwrap();
                    // "<step>.<key name>" -> "<step>.<8 hex of that key's id>"
                    // (a component without a key name is a plain directory)
                    match c.rsplit_once('.') {
                        Some((step, key)) if self.order.iter().any(|n| n == key) => p = p.join(format!("{}.{}", step, &self.km.idstr(key)[0..8])),
                        _ => p = p.join(c),
                    }
                }
                std::fs::create_dir_all(&p).unwrap();
                for f in dir["files"].as_array().unwrap() {
                    // the eight characters between step name and ".link": a key-id prefix - or, for "<key>:dots" /
                    // "<key>:trunc3", eight characters that the loader's trimming shortens (dots only; three
                    // characters of the id followed by ".link")
                    let fk = f["fkey"].as_str().unwrap();
                    let field = match fk.split_once(':') {
                        Some((_, "dots")) => "........".to_string(),
                        Some((k, "trunc3")) => format!("{}.link", &self.km.idstr(k)[0..3]),
                        // names that merely resemble the pattern: "<step>.<id8>.link.link", "<step>..<id8>.link", both
                        Some((k, "linklink")) => format!("{}.link", &self.km.idstr(k)[0..8]),
                        Some((k, "lead")) => format!(".{}", &self.km.idstr(k)[0..8]),
                        Some((k, "leadlinklink")) => format!(".{}.link.link", &self.km.idstr(k)[0..8]),
                        _ => self.km.idstr(fk)[0..8].to_string(),
                    };
                    let name = format!("{}.{}.link", f["step"].as_str().unwrap(), field);
                    let path = p.join(name);
                    let old = if keep_mtime { std::fs::metadata(&path).ok().and_then(|m| m.modified().ok()) } else { None };
                    std::fs::write(&path, &which[f["doc"].as_u64().unwrap() as usize - 1]).unwrap();
                    if let Some(t) = old {
                        if let Ok(fh) = std::fs::File::options().write(true).open(&path) {
                            let _ = fh.set_modified(t);
                        }
                    }
                }
            }
        };
        if history {
            write_dirs(&prior_texts, false);
        } else {
            write_dirs(&texts, false);
        }
        for a in scn["cwd"].as_array().map(|a| a.as_slice()).unwrap_or(&[]) {
            let p = work.join(a["p"].as_str().unwrap());
            if let Some(parent) = p.parent() {
                std::fs::create_dir_all(parent).unwrap();
            }
            let d = a["d"].as_str().unwrap();
            std::fs::write(p, if d == "he" { "" } else { d }).unwrap();
        }
        let mut keys: HashMap<KeyId, PublicKey> = HashMap::new();
        for ck in scn["ckeys"].as_array().unwrap() {
            let label = ck["label"].as_str().unwrap();
            let id = if self.order.iter().any(|n| n == label) {
                self.km.id(label)
            } else {
                KeyId::from_str(&sha256_hex(label.as_bytes())).unwrap()
            };
            keys.insert(id, self.km.pk(ck["key"].as_str().unwrap()).clone());
        }
        let top: std::result::Result<Metablock, _> = serde_json::from_str(&texts[0]);
        let old = std::env::current_dir().ok();
        std::env::set_current_dir(&work).unwrap();
        if pin_clock {
            in_toto::verif::set_now(Some(t0() + Duration::seconds(scn["now"].as_i64().unwrap_or(0))));
        } else {
            in_toto::verif::set_now(None);
        }
        if want_events {
            in_toto::verif::start_recording();
        }
        let ld = link_dir.to_str().unwrap().to_string();
        // the NAME the caller asks the summary to be filed under: none, or (every other scenario) one of its choosing.
        // It names the result and nothing else - every check is made either way.
        let asked: Option<&str> = if line["i"].as_u64().unwrap_or(0) % 2 == 1 { Some("asked.for") } else { None };
        if history {
            if let Ok(mb) = &top {
                let _ = guarded(|| in_toto::verifylib::in_toto_verify(mb, keys.clone(), &ld, asked));
            }
            write_dirs(&texts, true);
        }
        // C13: repeat the identical verification and collect the distinct (verdict, summary) pairs
        let repeat = line["repeat"].as_u64().unwrap_or(0);
        let mut distinct: Vec<Value> = vec![];
        if let Ok(mb) = &top {
            for _ in 0..repeat {
                let rr = guarded(|| in_toto::verifylib::in_toto_verify(mb, keys.clone(), &ld, asked));
                let d = match &rr {
                    Ok(Ok(m)) => match &m.metadata {
                        MetadataWrapper::Link(l) => json!({"out": "ok", "sum": self.abstract_link(l, scn)}),
                        _ => json!({"out": "ok", "sum": "layout"}),
                    },
                    Ok(Err(_)) => json!({"out": "err"}),
                    Err(_) => json!({"out": "panic"}),
                };
                if !distinct.contains(&d) {
                    distinct.push(d);
                }
            }
        }
        let r = match &top {
            Ok(mb) => guarded(|| in_toto::verifylib::in_toto_verify(mb, keys, &ld, asked)),
            Err(e) => Ok(Err(in_toto::Error::Opaque(format!("top layout does not parse: {e}")))),
        };
        let events = if want_events { in_toto::verif::take_events() } else { vec![] };
        in_toto::verif::set_now(None);
        let out = outcome(&r);
        // observable side effects in the working directory
        let mut ran = vec![];
        let mut written = vec![];
        for e in std::fs::read_dir(&work).unwrap().flatten() {
            let n = e.file_name().to_string_lossy().to_string();
            if let Some(x) = n.strip_prefix("S.") {
                ran.push(x.to_string());
            }
            if let Some(x) = n.strip_suffix(".link") {
                written.push(x.to_string());
            }
        }
        ran.sort();
        written.sort();
        if let Some(o) = old {
            let _ = std::env::set_current_dir(o);
        } else {
            let _ = std::env::set_current_dir("/");
        }
        let mut res = json!({"out": out, "ran": ran, "written": written});
        if repeat > 0 {
            res["distinct"] = json!(distinct);
        }
        match &r {
            Ok(Ok(mb)) => {
                if let MetadataWrapper::Link(l) = &mb.metadata {
                    res["sum"] = self.abstract_link(l, scn);
                    res["sum_sigs"] = json!(mb.signatures.len());
                    res["name_ok"] = json!(l.name == asked.unwrap_or(""));
                } else {
                    res["sum"] = json!("layout");
                }
            }
            Ok(Err(e)) => res["msg"] = json!(e.to_string()),
            Err(p) => res["msg"] = json!(p),
        }
        if want_events {
            res["ev"] = json!(self.abstract_events(events, &link_dir));
            res["reset"] = scn_chars(scn);
        }
        res
    }

    fn abstract_link(&self, l: &LinkMetadata, scn: &Value) -> Value {
        // reverse table of digest symbols occurring in the scenario
        let text = scn.to_string();
        let mut table: Vec<(in_toto::models::TargetDescription, String)> = vec![];
        for sym in ["h1", "h2", "h3", "h9", "he"] {
            // ("he", the empty file, is what the specification gives the sentinel of an inspection)
            if sym == "he" || text.contains(sym) {
                for pre in ["", "s512:", "both:"] {
                    let d = format!("{pre}{sym}");
                    table.push((target_of(&d), d));
                }
            }
        }
        let conv = |m: &std::collections::BTreeMap<in_toto::models::VirtualTargetPath, in_toto::models::TargetDescription>| -> Value {
            let mut v: Vec<Value> = m
                .iter()
                .map(|(p, t)| {
                    let d = table.iter().find(|(tt, _)| tt == t).map(|(_, d)| d.clone()).unwrap_or_else(|| format!("{:?}", t));
                    json!({"p": p.value(), "d": d})
                })
                .collect();
            v.sort_by_key(|x| x["p"].as_str().unwrap().to_string());
            json!(v)
        };
        json!({"name": l.name, "mats": conv(&l.materials), "prods": conv(&l.products),
               "cmd": l.command.as_ref().join(" "), "byp": l.byproducts.stdout().clone().unwrap_or_default()})
    }

    fn abstract_events(&self, events: Vec<Value>, link_dir: &Path) -> Vec<Value> {
        let mut out = vec![];
        for mut e in events {
            if let Some(k) = e.get("key").and_then(|k| k.as_str()) {
                let n = self.km.name_of(k);
                e["key"] = json!(n);
            }
            if let Some(d) = e.get("dir").and_then(|d| d.as_str()) {
                let rel = PathBuf::from(d);
                let rel = rel.strip_prefix(link_dir).map(|p| p.to_path_buf()).unwrap_or(rel);
                let comps: Vec<String> = rel
                    .components()
                    .map(|c| {
                        let c = c.as_os_str().to_string_lossy().to_string();
                        match c.rsplit_once('.') {
                            Some((s, pre)) => {
                                let nm = self.order.iter().find(|n| self.km.idstr(n).starts_with(pre)).cloned().unwrap_or(pre.to_string());
                                format!("{s}.{nm}")
                            }
                            None => c,
                        }
                    })
                    .collect();
                e["dir"] = json!(comps);
            }
            match e["ev"].as_str().unwrap_or("") {
                "rule" | "recorded" | "sig_counted" | "command_done" => {}
                _ => out.push(e),
            }
        }
        out
    }
}

/// RFC 3339 spellings of one instant
/// the instant an `expires` offset (seconds from the verification time) stands for.  The specification's
/// integers are 32-bit, so offsets beyond +-2.0e9 name calendar extremes; the map is strictly monotone,
/// which is all the specification's comparisons need.
pub fn instant_of(off: i64) -> DateTime<Utc> {
    let ymd = |y, m, d, hh, mm, ss| Utc.with_ymd_and_hms(y, m, d, hh, mm, ss).unwrap();
    match off {
        // a year before year 0: no notation of the document format can carry it, so such a layout is rejected either
        // as unreadable or as expired - never accepted
        -2_110_000_000 => ymd(-1, 3, 1, 0, 0, 0),
        -2_100_000_000 => ymd(1, 1, 2, 0, 0, 0),
        -2_090_000_000 => ymd(1000, 6, 15, 12, 0, 0),
        -2_080_000_000 => ymd(1500, 1, 1, 0, 0, 0),
        -2_070_000_000 => ymd(1699, 12, 31, 23, 59, 59),
        -2_060_000_000 => t0() - Duration::days(293 * 365),
        -2_050_000_000 => t0() - Duration::days(292 * 365),
        2_050_000_000 => t0() + Duration::days(292 * 365),
        2_060_000_000 => t0() + Duration::days(293 * 365),
        2_100_000_000 => ymd(9999, 12, 30, 23, 59, 59),
        // the latest 30 December noon before the verification time that belongs to ISO week 1 of the FOLLOWING year
        -2_020_000_000 => {
            use chrono::Datelike;
            let mut y = t0().year() - 1;
            loop {
                let d = ymd(y, 12, 30, 12, 0, 0);
                if d < t0() && d.iso_week().year() != y {
                    break d;
                }
                y -= 1;
            }
        }
        // calendar boundaries (all in the future): a Friday 1 January, a Monday 29 December, a leap day, a year's last second
        2_010_000_000 => ymd(2100, 1, 1, 0, 0, 0),
        2_011_000_000 => ymd(2098, 12, 29, 12, 0, 0),
        2_012_000_000 => ymd(2096, 2, 29, 6, 30, 0),
        2_013_000_000 => ymd(2099, 12, 31, 23, 59, 59),
        _ => t0() + Duration::seconds(off),
    }
}

pub fn spell_instant(inst: DateTime<Utc>, fmt: &str) -> String {
    use chrono::FixedOffset;
    let (off, frac): (i32, &str) = match fmt {
        "+00:00" => (0, ""),
        "-00:00" => (0, ""),
        "+02:00" => (2 * 3600, ""),
        "-07:30" => (-(7 * 3600 + 1800), ""),
        "+14:00" => (14 * 3600, ""),
        "Z.25" => (0, ".25"),
        "Z.999999999" => (0, ".999999999"),
        "+05:45.5" => (5 * 3600 + 45 * 60, ".5"),
        "lower" => (0, ""),
        _ => (0, ""),
    };
    let local = inst.with_timezone(&FixedOffset::east_opt(off).unwrap());
    let base = local.format("%Y-%m-%dT%H:%M:%S").to_string();
    let tz = match fmt {
        "-00:00" => "-00:00".to_string(),
        "+00:00" => "+00:00".to_string(),
        "Z.25" | "Z.999999999" => "Z".to_string(),
        "lower" => "z".to_string(),
        _ if off == 0 => "Z".to_string(),
        _ => {
            let a = off.abs();
            format!("{}{:02}:{:02}", if off < 0 { "-" } else { "+" }, a / 3600, (a % 3600) / 60)
        }
    };
    let s = format!("{base}{frac}{tz}");
    if fmt == "lower" {
        s.replace('T', "t")
    } else {
        s
    }
}

/// the scenario in the vocabulary of Trace_Verify (paths and patterns as character sequences)
pub fn scn_chars(scn: &Value) -> Value {
    let rule = |r: &Value| json!({"k": r["k"], "pat": chars(r["pat"].as_str().unwrap()), "src": chars(r["src"].as_str().unwrap()),
                                   "dst": chars(r["dst"].as_str().unwrap()), "with": r["with"], "from": r["from"]});
    let rules = |v: &Value| -> Vec<Value> { v.as_array().unwrap().iter().map(rule).collect() };
    let arts = |v: &Value| -> Vec<Value> {
        v.as_array().map(|a| a.iter().map(|x| json!({"p": chars(x["p"].as_str().unwrap()), "d": x["d"]})).collect()).unwrap_or_default()
    };
    let docs: Vec<Value> = scn["docs"].as_array().unwrap().iter().map(|d| {
        if d["typ"] == "link" {
            let mut o = d.clone();
            o["mats"] = json!(arts(&d["mats"]));
            o["prods"] = json!(arts(&d["prods"]));
            o
        } else if d["typ"] == "layout" {
            let mut o = d.clone();
            o["steps"] = json!(d["steps"].as_array().unwrap().iter().map(|s| {
                let mut t = s.clone();
                t["em"] = json!(rules(&s["em"]));
                t["ep"] = json!(rules(&s["ep"]));
                t
            }).collect::<Vec<_>>());
            o["inspect"] = json!(d["inspect"].as_array().unwrap().iter().map(|i| {
                let mut t = i.clone();
                t["em"] = json!(rules(&i["em"]));
                t["ep"] = json!(rules(&i["ep"]));
                t["namec"] = json!(chars(i["name"].as_str().unwrap()));
                t["cmd"]["path"] = json!(chars(i["cmd"]["path"].as_str().unwrap_or("")));
                t
            }).collect::<Vec<_>>());
            o
        } else {
            d.clone()
        }
    }).collect();
    json!({"now": scn["now"], "ckeys": scn["ckeys"], "docs": docs, "dirs": scn["dirs"], "cwd": arts(&scn["cwd"])})
}

/// Random abstract scenario for the pipeline, beyond the bounds of the MC_* instances
/// (up to 3 steps, 4 functionary keys per step, every file state, sub-layouts, rule chains).
pub fn random_scn(rng: &mut impl rand::Rng) -> Value {
    let keys = ["k1", "k2", "k3", "kx"];
    let other = |k: &str| if k == "k1" { "k2" } else { "k1" };
    let good = |k: &str| json!({"kid": k, "by": k, "ok": true});
    let bad = |k: &str| json!({"kid": k, "by": k, "ok": false});
    let arts = |v: u32| -> Value {
        match v % 3 {
            0 => json!([{"p": "a", "d": "h1"}]),
            1 => json!([{"p": "a", "d": "h1"}, {"p": "evil", "d": "h2"}]),
            _ => json!([{"p": "a", "d": "h2"}]),
        }
    };
    let simple = |k: &str, pat: &str| json!({"k": k, "pat": pat, "src": "", "dst": "", "with": "P", "from": ""});
    let nsteps = rng.gen_range(1..=3);
    let mut steps = vec![];
    let mut docs: Vec<Value> = vec![Value::Null];
    let mut dirs: std::collections::BTreeMap<Vec<String>, Vec<Value>> = std::collections::BTreeMap::new();
    dirs.insert(vec![], vec![]);
    let table: Vec<&str> = ["k1", "k2", "k3"].iter().filter(|_| rng.gen_bool(0.95)).cloned().collect();
    for s in 0..nsteps {
        let name = format!("s{}", s + 1);
        let pubkeys: Vec<&str> = keys.iter().filter(|_| rng.gen_bool(0.75)).cloned().collect();
        let thr = [0, 1, 1, 1, 1, 2, 2, 3][rng.gen_range(0..8)];
        let mut em = vec![];
        if s > 0 && rng.gen_bool(0.5) {
            em.push(json!({"k": "MATCH", "pat": "a", "src": "", "dst": "", "with": "P", "from": format!("s{}", s)}));
        }
        em.push(simple("ALLOW", "*"));
        let ep = match rng.gen_range(0..8) {
            0 => vec![simple("DISALLOW", "evil"), simple("ALLOW", "*")],
            1 => vec![simple("CREATE", "a"), simple("DISALLOW", "*")],
            2 => vec![simple("REQUIRE", "a"), simple("ALLOW", "*")],
            _ => vec![simple("ALLOW", "*")],
        };
        steps.push(json!({"name": name, "pubkeys": pubkeys, "thr": thr, "em": em, "ep": ep}));
        // the agreed content of this step (most links use it, some dissent)
        let base_variant: u32 = rng.gen_range(0..3);
        for k in keys {
            if !rng.gen_bool(0.7) {
                continue;
            }
            let variant = if rng.gen_bool(0.9) { base_variant } else { rng.gen_range(0..3) };
            let link = |sigs: Value, edit: &str| json!({"typ": "link", "sigs": sigs, "edit": edit, "name": name, "mats": [], "prods": arts(variant),
                                                        "cmd": format!("c.{name}"), "byp": format!("b.{name}")});
            let st = rng.gen_range(0..20);
            let doc = match st {
                0..=12 => link(json!([good(k)]), "none"),
                13 => link(json!([bad(k)]), "none"),
                14 => link(json!([good(other(k))]), "none"),
                15 => link(json!([{"kid": k, "by": other(k), "ok": true}]), "none"),
                16 => link(json!([good(other(k)), good(k)]), "none"),
                17 => link(json!([bad(k), good(other(k))]), "none"),
                18 => link(json!([good(k)]), "product"),
                _ => {
                    // a sub-layout delegated to by k with one inner step done by k3
                    let expired = rng.gen_bool(0.2);
                    let inner_ok = rng.gen_bool(0.8);
                    let sub = json!({"typ": "layout", "sigs": [good(k)], "edit": "none", "expires": if expired { -5 } else { 1000 }, "fmt": "Z",
                        "keys": ["k3"], "steps": [{"name": "in1", "pubkeys": ["k3"], "thr": 1, "em": [], "ep": [simple("ALLOW", "*")]}], "inspect": []});
                    let inner = json!({"typ": "link", "sigs": [if inner_ok { good("k3") } else { bad("k3") }], "edit": "none", "name": "in1",
                        "mats": [], "prods": arts(variant), "cmd": "c.in1", "byp": "b.in1"});
                    docs.push(inner);
                    let idx = docs.len();
                    dirs.entry(vec![format!("{name}.{k}")]).or_default().push(json!({"step": "in1", "fkey": "k3", "doc": idx}));
                    sub
                }
            };
            docs.push(doc);
            let idx = docs.len();
            dirs.get_mut(&vec![]).unwrap().push(json!({"step": name, "fkey": k, "doc": idx}));
        }
    }
    let lsigs = match rng.gen_range(0..25) {
        0 => json!([bad("o1")]),
        1 => json!([]),
        2 => json!([good("o2")]),
        _ => json!([good("o1")]),
    };
    docs[0] = json!({"typ": "layout", "sigs": lsigs, "edit": if rng.gen_bool(0.05) { "readme" } else { "none" },
        "expires": if rng.gen_bool(0.07) { -30 } else { 1000 }, "fmt": "Z", "keys": table, "steps": steps, "inspect": []});
    let ckeys = if rng.gen_bool(0.1) { json!([{"label": "o1", "key": "o1"}, {"label": "o2", "key": "o2"}]) } else { json!([{"label": "o1", "key": "o1"}]) };
    let dirs_j: Vec<Value> = dirs.into_iter().map(|(p, f)| json!({"path": p, "files": f})).collect();
    json!({"m": "VERIFY", "prop": "RANDOM", "scn": {"now": 0, "ckeys": ckeys, "docs": docs, "dirs": dirs_j, "cwd": []}})
}
