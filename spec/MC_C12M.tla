------------------------------ MODULE MC_C12M ------------------------------
(* C12 at the level of one signed block (Metablock.tla): "a signature       *)
(* attributed to identifier X is only ever checked against, and counted     *)
(* for, the key whose identifier is X".  Entries attributed to an           *)
(* identifier that merely RESEMBLES an authorised key's (same first         *)
(* characters, another last one: "k1~"; the same digits in upper case:      *)
(* "k1^") or that is ANOTHER authorised key's, genuinely made with k1's     *)
(* key: they are valid for no key and count for none - alone, next to       *)
(* k1's own entry, repeated, in any order.                                  *)
EXTENDS Metablock, Json, SequencesExt

Near(n) == [kid |-> n, by |-> "k1", ok |-> TRUE]
Own(k) == [kid |-> k, by |-> k, ok |-> TRUE]
Names == {"k1~", "k1^", "k2"}
AuthLists == {<<"k1">>, <<"k1", "k2">>, <<"k2", "k1">>, <<"k1", "k2", "k3">>}
SigLists == UNION {{<<Near(n)>>, <<Own("k1"), Near(n)>>, <<Near(n), Own("k1")>>, <<Near(n), Own("k1"), Near(n)>>,
                    <<Own("k3"), Near(n)>>, <<Near(n), Own("k3"), Own("k1")>>} : n \in Names}
            \cup {<<Near("k1^"), Near("k1~")>>, <<Near("k1~"), Own("k1"), Near("k1^")>>, <<Near("k2"), Own("k2")>>,
                  <<Own("k2"), Near("k2")>>, <<Own("k1")>>, <<Own("k1"), Own("k2")>>}

MCInit ==
  /\ t \in {1, 2, 3}
  /\ auth \in AuthLists /\ sigs \in SigLists
  /\ MInitRest

MCSpec == MCInit /\ [][MNext]_mvars

Emit ==
  Done =>
    PrintT(<<"SCN", ToJson(
      [m |-> "C04", t |-> t, auth |-> auth, sigs |-> sigs,
       out |-> res, allow |-> SetToSeq(Allowed),
       good |-> Cardinality(GoodKeys), once |-> AtMostOnce])>>)
=============================================================================
