------------------------------ MODULE MC_C07 ------------------------------
(* Bounded instance of Verify.tla for C07: a step with threshold 2 or 3,    *)
(* two or three valid authorised links one of which may dissent in one      *)
(* material or product (path, digest, algorithm, extra entry, missing       *)
(* entry), optionally a fourth link that must be ignored (unauthorised or   *)
(* badly signed) and differs.                                               *)
EXTENDS VerifyMC

Base == {Art(PA, "h1"), Art(PB, "h1")}
Dissent(kind) ==
  CASE kind = "none"    -> Base
    [] kind = "path"    -> {Art(PA, "h1"), Art(<<"c">>, "h1")}
    [] kind = "digest"  -> {Art(PA, "h1"), Art(PB, "h2")}
    \* digests that are nearly the agreed one: first / middle / last byte changed, last byte missing
    [] kind = "digest_f" -> {Art(PA, "h1"), Art(PB, "h1.f")}
    [] kind = "digest_m" -> {Art(PA, "h1"), Art(PB, "h1.m")}
    [] kind = "digest_l" -> {Art(PA, "h1"), Art(PB, "h1.l")}
    [] kind = "digest_t" -> {Art(PA, "h1"), Art(PB, "h1.t")}
    [] kind = "alg"     -> {Art(PA, "h1"), Art(PB, "s512:h1")}
    [] kind = "algmore" -> {Art(PA, "h1"), Art(PB, "both:h1")}
    [] kind = "algdigest" -> {Art(PA, "h1"), Art(PB, "s512:h2")}
    [] kind = "extra"   -> Base \cup {Art(<<"c">>, "h1")}
    \* the same file named by ANOTHER SPELLING of its path ("./b", "x/../b"): another path as far as agreement goes
    [] kind = "path_dot"    -> {Art(PA, "h1"), Art(<<".", "/", "b">>, "h1")}
    [] kind = "path_dotdot" -> {Art(PA, "h1"), Art(<<"x", "/", ".", ".", "/", "b">>, "h1")}
    [] kind = "extra_dot"   -> Base \cup {Art(<<".", "/", "b">>, "h2")}
    [] kind = "missing" -> {Art(PA, "h1")}
    [] kind = "empty"   -> {}
Kinds7 == {"none", "path", "digest", "digest_f", "digest_m", "digest_l", "digest_t", "alg", "algmore", "algdigest", "extra", "path_dot", "path_dotdot", "extra_dot", "missing", "empty"}

\* the dissenting signer may also (or only) have run another COMMAND: that is merely warned about
LinkFor(k, dissents, kind, side) ==
  [LinkD("s1", <<GoodSig(k)>>,
         IF dissents /\ side = "mats" THEN Dissent(kind) ELSE Base,
         IF dissents /\ side = "prods" THEN Dissent(kind) ELSE Base)
   EXCEPT !.cmd = IF dissents /\ (kind = "none" \/ side = "prods") THEN "c.other" ELSE "c.s1"]

Ignored(kind) ==
  CASE kind = "none"    -> << >>
    [] kind = "unauth"  -> <<Entry(<< >>, "s1", "kx", LinkD("s1", <<GoodSig("kx")>>, {}, {Art(<<"evil">>, "h2")}))>>
    [] kind = "badsig"  -> <<Entry(<< >>, "s1", "k3", LinkD("s1", <<BadSig("k3")>>, {}, {Art(<<"evil">>, "h2")}))>>

Layout(thr, pubs) ==
  LayoutD(<<GoodSig("o1")>>, 1000, <<"k1", "k2", "k3">>,
          <<StepD("s1", pubs, thr, <<Simple("ALLOW", <<"*">>)>>, <<Simple("ALLOW", <<"*">>)>>)>>, << >>)

\* two functionaries delegate the step to one co-signed sub-layout; each one's run lives in its own
\* sub-directory and the second run may dissent: the summaries are what is compared
CoSub == LayoutD(<<GoodSig("k1"), GoodSig("k2")>>, 1000, <<"k3">>,
                 <<StepD("in1", <<"k3">>, 1, << >>, <<Simple("ALLOW", <<"*">>)>>)>>, << >>)
CoInner(k, kind, side) ==
  Entry(<<"s1." \o k>>, "in1", "k3",
        LinkD("in1", <<GoodSig("k3")>>,
              IF side = "mats" THEN Dissent(kind) ELSE Base,
              IF side = "prods" THEN Dissent(kind) ELSE Base))
CoFiled(who, kind, side) ==
  Build(Layout(2, <<"k1", "k2">>), Own("o1"),
        <<Entry(<< >>, "s1", "k1", CoSub), Entry(<< >>, "s1", "k2", CoSub),
          CoInner("k1", IF who = "k1" THEN kind ELSE "none", side),
          CoInner("k2", IF who = "k2" THEN kind ELSE "none", side)>>, {})
\* ... and a plain link by one functionary against a sub-layout summary by the other
Mixed(kind, side) ==
  Build(Layout(2, <<"k1", "k2">>), Own("o1"),
        <<Entry(<< >>, "s1", "k1", LinkD("s1", <<GoodSig("k1")>>, Base, Base)),
          Entry(<< >>, "s1", "k2", [CoSub EXCEPT !.sigs = <<GoodSig("k2")>>]),
          CoInner("k2", kind, side)>>, {})

\* the co-signed sub-layout has TWO steps: its summary reports the materials of the first and the products of the
\* last.  A dissent at the "edge" (first step's materials / last step's products) shows in the summary; one in the
\* "middle" (last step's materials / first step's products) does not.
CoSub2 == LayoutD(<<GoodSig("k1"), GoodSig("k2")>>, 1000, <<"k3">>,
                  <<StepD("in1", <<"k3">>, 1, <<Simple("ALLOW", <<"*">>)>>, <<Simple("ALLOW", <<"*">>)>>),
                    StepD("in2", <<"k3">>, 1, <<Simple("ALLOW", <<"*">>)>>, <<Simple("ALLOW", <<"*">>)>>)>>, << >>)
CoInner2(k, kind, side, where) ==
  LET d == Dissent(kind)
      firstHas == (where = "edge" /\ side = "mats") \/ (where = "middle" /\ side = "prods")
  IN <<Entry(<<"s1." \o k>>, "in1", "k3",
             LinkD("in1", <<GoodSig("k3")>>,
                   IF firstHas /\ side = "mats" THEN d ELSE Base, IF firstHas /\ side = "prods" THEN d ELSE Base)),
       Entry(<<"s1." \o k>>, "in2", "k3",
             LinkD("in2", <<GoodSig("k3")>>,
                   IF ~firstHas /\ side = "mats" THEN d ELSE Base, IF ~firstHas /\ side = "prods" THEN d ELSE Base))>>
CoFiled2(who, kind, side, where) ==
  Build(Layout(2, <<"k1", "k2">>), Own("o1"),
        <<Entry(<< >>, "s1", "k1", CoSub2), Entry(<< >>, "s1", "k2", CoSub2)>>
        \o CoInner2("k1", IF who = "k1" THEN kind ELSE "none", side, where)
        \o CoInner2("k2", IF who = "k2" THEN kind ELSE "none", side, where), {})

CoInit ==
  \/ \E who \in {"k1", "k2"}, kind \in Kinds7, side \in {"mats", "prods"}, mixed \in BOOLEAN :
       /\ (mixed => who = "k2")
       /\ scn = IF mixed THEN Mixed(kind, side) ELSE CoFiled(who, kind, side)
  \/ \E who \in {"k1", "k2"}, kind \in {"none", "digest", "extra", "missing", "path"}, side \in {"mats", "prods"},
        where \in {"edge", "middle"} :
       scn = CoFiled2(who, kind, side, where)

\* the ord-th permutation of a sequence of length 2 or 3
Permute(q, ord) ==
  IF Len(q) = 2 THEN (IF ord % 2 = 0 THEN <<q[2], q[1]>> ELSE q)
  ELSE CASE ord = 1 -> q [] ord = 2 -> <<q[1], q[3], q[2]>> [] ord = 3 -> <<q[2], q[1], q[3]>>
         [] ord = 4 -> <<q[2], q[3], q[1]>> [] ord = 5 -> <<q[3], q[1], q[2]>> [] OTHER -> <<q[3], q[2], q[1]>>

PlainInit ==
     \E thr \in {2, 3}, n \in {2, 3}, who \in {"k1", "k2", "k3"}, kind \in Kinds7,
        side \in {"mats", "prods"}, ign \in {"none", "unauth", "badsig"}, ord \in 1..6 :
       \* the ORDER in which the layout lists the step's keys is free (all orders for dissent in a digest / an extra entry)
       /\ (ord > 1 => kind \in {"digest", "extra"} /\ ign = "none")
       /\ (n = 2 => who # "k3")
       /\ (ign = "badsig" => n = 2)
       /\ LET signers == IF n = 2 THEN <<"k1", "k2">> ELSE <<"k1", "k2", "k3">>
              pubs == Permute(IF ign = "badsig" THEN <<"k1", "k2", "k3">> ELSE signers, ord)
          IN scn = Build(Layout(thr, pubs), Own("o1"),
                         [i \in 1..n |-> Entry(<< >>, "s1", signers[i],
                                               LinkFor(signers[i], signers[i] = who, kind, side))]
                         \o Ignored(ign), {})

\* a link file that carries a second functionary's signature as well, next to that functionary's OWN, dissenting
\* file: each functionary's evidence is the file filed under his key
CoSignedInit ==
  \E filer \in {"k1", "k2"}, kind \in Kinds7 \ {"none"}, side \in {"mats", "prods"}, thr \in {2} :
     LET other == IF filer = "k1" THEN "k2" ELSE "k1" IN
     scn = Build(Layout(thr, <<"k1", "k2">>), Own("o1"),
                 <<Entry(<< >>, "s1", filer, LinkD("s1", <<GoodSig(filer), GoodSig(other)>>, Base, Base)),
                   Entry(<< >>, "s1", other, LinkFor(other, TRUE, kind, side))>>, {})

\* the multi-party step is not the first of the layout: a single-party step (threshold 1, or 0) comes before it
PrecededInit ==
  \E t0 \in {0, 1}, who \in {"k1", "k2"}, kind \in Kinds7, side \in {"mats", "prods"}, after \in BOOLEAN :
     LET first == StepD("s0", <<"k3">>, t0, <<Simple("ALLOW", <<"*">>)>>, <<Simple("ALLOW", <<"*">>)>>)
         multi == StepD("s1", <<"k1", "k2">>, 2, <<Simple("ALLOW", <<"*">>)>>, <<Simple("ALLOW", <<"*">>)>>)
     IN scn = Build(LayoutD(<<GoodSig("o1")>>, 1000, <<"k1", "k2", "k3">>,
                            IF after THEN <<multi, first>> ELSE <<first, multi>>, << >>),
                    Own("o1"),
                    <<Entry(<< >>, "s0", "k3", LinkD("s0", <<GoodSig("k3")>>, Base, Base)),
                      Entry(<< >>, "s1", "k1", LinkFor("k1", who = "k1", kind, side)),
                      Entry(<< >>, "s1", "k2", LinkFor("k2", who = "k2", kind, side))>>, {})

MCInit == (CoInit \/ PlainInit \/ CoSignedInit \/ PrecededInit) /\ VInitRest


MCSpec == MCInit /\ [][VNext]_vars
Emit == EmitAs("C07")
=============================================================================
