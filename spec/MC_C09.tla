------------------------------ MODULE MC_C09 ------------------------------
(* Bounded instance of Lifecycle.tla for C09: every path                    *)
(* constructor x 1..3 signers x layout x (no edit | one edit) x             *)
(* (no mutation | flip | relabel | drop) x verifier key choice, with the    *)
(* content strings drawn from the character classes of CJson.tla.           *)
EXTENDS Lifecycle, Json

CONSTANT Tier

Classes == {"Q", "B", "N", "E", "C", "D", "n", "u", "A", "U", "S"}
Strs == {<< >>} \cup {<<c>> : c \in Classes} \cup {<<"B", "n">>, <<"N", "B">>, <<"Q", "B">>, <<"S", "U">>}
StrsFor == IF Tier = "quick" THEN {<< >>, <<"N">>, <<"E">>, <<"C">>, <<"B">>, <<"B", "n">>, <<"Q", "B">>, <<"S", "U">>, <<"D">>} ELSE Strs
Docs == {"link", "layout"}

MCInit ==
  /\ ctor \in {"new", "build"}
  /\ signers \in {<<"k1">>, <<"k1", "k2">>, <<"k1", "k2", "k3">>, <<"k1", "k1">>, <<"k2", "k1", "k2">>,
                  <<"k1", "k1b">>, <<"k1b", "k2", "k1">>}   \* k1b: k1's key material under another valid declaration (another id)
  /\ fmt \in {"compact", "pretty", "cjson", "cjson_pretty"}   \* serde_json compact / pretty, Json / JsonPretty interchange
  /\ str \in StrsFor
  /\ field \in Docs
  /\ LInitRest

MCNext ==
  \/ Construct \/ Write \/ Read
  \/ NoEdit \/ Edit("name")
  \/ NoMutation \/ FlipBit(1) \/ (\E i \in 2..3 : FlipBit(i)) \/ Relabel(1, "k3") \/ Relabel(1, "kx") \/ DropSig(1)
  \/ (\E kind \in KeyKinds : ChooseKeys(kind))
  \/ RelabelToStar \/ Verify

MCSpec == MCInit /\ [][MCNext]_lvars

SetToSeqL(S) == IF S = {"ok"} THEN <<"ok">> ELSE IF S = {"err"} THEN <<"err">> ELSE <<"ok", "err">>
Emit ==
  LDone =>
    PrintT(<<"SCN", ToJson(
      [m |-> "LIFE", doc |-> field, s |-> str, ops |-> ops, out |-> res, allow |-> IF res \in AllowedVerdicts THEN SetToSeqL(AllowedVerdicts) ELSE <<res>>])>>)
=============================================================================
