------------------------------ MODULE MC_C03 ------------------------------
(* Bounded instance of Rules.tla for property C03.                          *)
(* Every initial state is one abstract input (item rules + item link +      *)
(* referenced link); every terminal state prints one scenario line carrying *)
(* the outcome of the specification's algorithm (the only allowed outcome - *)
(* C03 says "equals") and the outcome under each combination of the named   *)
(* implementation deviations where that differs.                            *)
EXTENDS Rules, Json, SequencesExt

CONSTANTS Mode,     \* "single" | "pairs" | "all"
          PairAlphabet, \* "sub" | "all"
          PairStates    \* "tiny" | "cover"

PA == <<"a">>
\* "da": shares the leading CHARACTERS of the prefix "d" without lying in the directory d/
PB == <<"d", "a">>
PD == <<"d", "/", "a">>
PathSet == {PA, PB, PD}

\* how a path figures in the item's own link
StatusOf(p) == IF p = PB THEN {"abs", "same", "prod"}
               ELSE {"abs", "mat", "prod", "same", "diff"}
ItemStates == {st \in [PathSet -> {"abs", "mat", "prod", "same", "diff"}] :
                 \A p \in PathSet : st[p] \in StatusOf(p)}

ItemLink(st) ==
  [mats  |-> {[p |-> p, d |-> "h1"] :
                p \in {q \in PathSet : st[q] \in {"mat", "same", "diff"}}},
   prods |-> {[p |-> p, d |-> IF st[p] = "diff" THEN "h2" ELSE "h1"] :
                p \in {q \in PathSet : st[q] \in {"prod", "same", "diff"}}}]

\* the referenced step: absent, or products given per path; fixed materials
\* "s512:h1": the same content as h1 recorded under ANOTHER hash algorithm only - as a digest map it is
\* neither equal to h1 nor comparable with it
RefOf(p) == IF p = PB THEN {"abs", "h1"} ELSE IF p = PA THEN {"abs", "h1", "h2", "s512:h1"} ELSE {"abs", "h1", "h2"}
RefStates == {rs \in [PathSet -> {"abs", "h1", "h2", "s512:h1"}] :
                \A p \in PathSet : rs[p] \in RefOf(p)}
RefLink(rs) ==
  [mats  |-> {[p |-> PA, d |-> "h1"], [p |-> PD, d |-> "h2"]},
   prods |-> {[p |-> p, d |-> rs[p]] : p \in {q \in PathSet : rs[q] # "abs"}}]

NoRef == [has |-> FALSE, st |-> [p \in PathSet |-> "abs"]]
RefChoices(S) == {NoRef} \cup {[has |-> TRUE, st |-> rs] : rs \in S}
LinksOf(st, rc) ==
  IF ~rc.has THEN [n \in {"it"} |-> ItemLink(st)]
  ELSE [n \in {"it", "r"} |-> IF n = "it" THEN ItemLink(st) ELSE RefLink(rc.st)]

Pats == {<<"a">>, <<"*">>, <<"d", "/", "*">>, <<"?">>}
Simple(k, pat) == [k |-> k, pat |-> pat, src |-> << >>, dst |-> << >>,
                   with |-> "P", from |-> ""]
SimpleRules == {Simple(k, pat) : k \in Kinds \ {"MATCH"}, pat \in Pats}
MatchRules ==
  {[k |-> "MATCH", pat |-> pat, src |-> s, dst |-> d, with |-> w, from |-> "r"] :
     pat \in Pats, s \in {<< >>, <<"d">>}, d \in {<< >>, <<"d">>}, w \in {"M", "P"}}
BadDisallow == Simple("DISALLOW", <<"[">>)
\* the uninterpretable part may come after literal text (or after a wildcard)
BadDisallows == {BadDisallow, Simple("DISALLOW", <<"d", "/", "[">>), Simple("DISALLOW", <<"a", "[">>), Simple("DISALLOW", <<"*", "[">>)}
AllRules == SimpleRules \cup MatchRules \cup BadDisallows

\* sub-alphabet for ordered pairs
PairRules ==
  {Simple(k, pat) : k \in Kinds \ {"MATCH"}, pat \in {<<"a">>, <<"*">>}}
  \cup {[k |-> "MATCH", pat |-> pat, src |-> s, dst |-> d, with |-> "P", from |-> "r"] :
          pat \in {<<"*">>, <<"a">>}, s \in {<< >>, <<"d">>}, d \in {<< >>, <<"d">>}}
  \cup {BadDisallow, Simple("DISALLOW", <<"a", "[">>)}

\* covering subset of link states for the pair mode
PairItemStates ==
  IF PairStates = "tiny"
  THEN {st \in ItemStates : st[PB] \in {"abs", "same"} /\ st[PD] \in {"abs", "diff"}}
  ELSE {st \in ItemStates : st[PB] \in {"abs", "same"} /\ st[PD] \in {"abs", "mat", "diff", "prod"}}
PairRefStates ==
  IF PairStates = "tiny"
  THEN {rs \in RefStates : rs[PB] = "abs" /\ rs[PD] \in {"abs", "h1"}}
  ELSE {rs \in RefStates : rs[PB] = "abs"}
PairSet == IF PairAlphabet = "all" THEN AllRules ELSE PairRules

SingleInit ==
  /\ \E r \in AllRules, side \in {"M", "P"} :
       item = [name |-> "it",
               em |-> IF side = "M" THEN <<r>> ELSE << >>,
               ep |-> IF side = "P" THEN <<r>> ELSE << >>]
  /\ \E st \in ItemStates, rc \in RefChoices(RefStates) : links = LinksOf(st, rc)

PairInit ==
  /\ \E r1 \in PairSet, r2 \in PairSet, place \in {"MM", "PP", "MP"} :
       item = [name |-> "it",
               em |-> CASE place = "MM" -> <<r1, r2>> [] place = "PP" -> << >> [] OTHER -> <<r1>>,
               ep |-> CASE place = "MM" -> << >> [] place = "PP" -> <<r1, r2>> [] OTHER -> <<r2>>]
  /\ \E st \in PairItemStates, rc \in RefChoices(PairRefStates) : links = LinksOf(st, rc)

\* the item's own link missing (REQUIRE-free corner): must be an error
MissingInit ==
  /\ item = [name |-> "it", em |-> << >>, ep |-> << >>]
  /\ links = [n \in {"r"} |-> RefLink([p \in PathSet |-> "abs"])]

MCInit ==
  /\ dev = {}
  /\ \/ Mode \in {"single", "all"} /\ SingleInit
     \/ Mode \in {"pairs", "all"} /\ PairInit
     \/ MissingInit
  /\ RInitRest

MCSpec == MCInit /\ [][RNext]_rvars

-----------------------------------------------------------------------------
RuleJ(r) == [k |-> r.k, pat |-> Join(r.pat), src |-> Join(r.src),
             dst |-> Join(r.dst), with |-> r.with, from |-> r.from]
ArtJ(arts) == SetToSeq({[p |-> Join(a.p), d |-> a.d] : a \in arts})
LinkJ(n) == [name |-> n, mats |-> ArtJ(links[n].mats), prods |-> ArtJ(links[n].prods)]
RulesJ(rs) == [i \in 1..Len(rs) |-> RuleJ(rs[i])]
Out(b) == IF b THEN "ok" ELSE "err"

DevOuts ==
  LET base == ItemOk(item, links, {}) IN
  SetToSeq({[d |-> d, out |-> Out(ItemOk(item, links, {d}))] :
              d \in {x \in DevIds : ItemOk(item, links, {x}) # base}})

Emit ==
  Terminal =>
    PrintT(<<"SCN", ToJson(
      [m |-> "C03",
       item |-> [name |-> item.name, em |-> RulesJ(item.em), ep |-> RulesJ(item.ep)],
       links |-> SetToSeq({LinkJ(n) : n \in DOMAIN links}),
       out |-> res,
       allow |-> <<res>>,
       dv |-> DevOuts])>>)

\* non-vacuity aid: number of terminal states that reject
Rejects == Terminal /\ res = "err"
=============================================================================
