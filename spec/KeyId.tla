------------------------------- MODULE KeyId -------------------------------
(* Key identity (C12).  A key DESCRIPTION is [typ, scheme, halgs, mat]:     *)
(* type, scheme, key-id hash-algorithm list ("absent", "default", or       *)
(* "empty": present but without entries) and                               *)
(* key material.  The intrinsic identifier Id(d) is an injective function   *)
(* of the description (sha256 of its reference rendering; hash abstracted). *)
(*                                                                          *)
(* Part 1 - construction paths.  A key value is reached from key material   *)
(* by a sequence of path actions of the public API; each action has an      *)
(* intended effect on the description; the library's key_id() must always   *)
(* be Id(description) and exports must be the standard encodings.           *)
(* Part 2 - key tables.  Parsing a layout keeps exactly the entries filed   *)
(* under the key's own identifier.                                          *)
EXTENDS Naturals, Sequences, FiniteSets, TLC

Types == {"ed25519", "ecdsa", "rsa"}
SchemeOf(typ) == CASE typ = "ed25519" -> "ed25519" [] typ = "ecdsa" -> "ecdsa-sha2-nistp256" [] typ = "rsa" -> "rsassa-pss-sha256"

Desc(typ, scheme, halgs, mat) == [typ |-> typ, scheme |-> scheme, halgs |-> halgs, mat |-> mat]
Id(d) == <<"id", d.typ, d.scheme, d.halgs, d.mat>>      \* injective by construction

VARIABLES typ, mat,        \* the material the path starts from (immutable)
          d,               \* current description ("none" before the first action)
          path, pc

kvars == <<typ, mat, d, path, pc>>

KInitRest == d = [typ |-> "none"] /\ path = << >> /\ pc = "start"

Step(op, nd) == d' = nd /\ path' = Append(path, op) /\ UNCHANGED <<typ, mat>>

\* ---- ways to obtain a key from material
FromPrivate == pc = "start" /\ Step("private", Desc(typ, SchemeOf(typ), "default", mat)) /\ pc' = "have"
FromRaw     == pc = "start" /\ typ # "rsa" /\ Step("raw", Desc(typ, SchemeOf(typ), "absent", mat)) /\ pc' = "have"
FromRawH    == pc = "start" /\ typ = "ed25519" /\ Step("raw_halgs", Desc(typ, SchemeOf(typ), "default", mat)) /\ pc' = "have"
FromRawE    == pc = "start" /\ typ # "rsa" /\ Step("raw_empty", Desc(typ, SchemeOf(typ), "empty", mat)) /\ pc' = "have"
FromSpki    == pc = "start" /\ Step("spki", Desc(typ, SchemeOf(typ), "default", mat)) /\ pc' = "have"
\* (the concretisation offers the armour in several spellings - with / without final newline, CRLF line ends,
\* surrounding blank lines - which must all give this same key)
FromPem     == pc = "start" /\ Step("pem", Desc(typ, SchemeOf(typ), "default", mat)) /\ pc' = "have"
\* a freshly generated key pair (PrivateKey::new -> from_pkcs8): like FromPrivate, for new material
FromGenerated == pc = "start" /\ typ # "rsa" /\ Step("generated", Desc(typ, SchemeOf(typ), "default", mat)) /\ pc' = "have"
FromSpkiOtherScheme ==
  pc = "start" /\ typ = "rsa" /\ Step("spki512", Desc(typ, "rsassa-pss-sha512", "default", mat)) /\ pc' = "have"

\* ---- round trips of an existing key
ViaJson   == pc = "have" /\ Len(path) < 4 /\ Step("json", d) /\ UNCHANGED pc
ViaJsonTxt == pc = "have" /\ Len(path) < 4 /\ Step("jsontext", d) /\ UNCHANGED pc
\* export to SubjectPublicKeyInfo and import again: material and type survive, the
\* hash-algorithm list is the importer's default
ViaSpki   == pc = "have" /\ Len(path) < 4 /\ Step("respki", [d EXCEPT !.halgs = "default"]) /\ UNCHANGED pc
Stop      == pc = "have" /\ pc' = "done" /\ UNCHANGED <<typ, mat, d, path>>

KNext == FromPrivate \/ FromGenerated \/ FromRaw \/ FromRawH \/ FromRawE \/ FromSpki \/ FromPem \/ FromSpkiOtherScheme
         \/ ViaJson \/ ViaJsonTxt \/ ViaSpki \/ Stop

KDone == pc = "done"

\* the material and type never change along a path; the id is a function of the description
Intrinsic == d.typ # "none" => d.typ = typ /\ d.mat = mat
JsonIsIdentity == [][(path' # path /\ path'[Len(path')] \in {"json", "jsontext"}) => d' = d]_kvars

-----------------------------------------------------------------------------
\* Part 2: key tables.  entries: set of [filed, key] with key a description
ParseTable(entries) == {e \in entries : e.filed = Id(e.key)}
TableOk(entries) == \A e \in ParseTable(entries) : e.filed = Id(e.key)
=============================================================================
