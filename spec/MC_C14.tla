------------------------------ MODULE MC_C14 ------------------------------
(* Enumeration of the adversarial class lattice of Robust.tla: one scenario *)
(* per document with at most two unusual fields (all pairs of classes).     *)
(* Only the initial states are needed for emission; the Offer steps are     *)
(* explored on a sample to keep the state space small.                      *)
EXTENDS Robust, Json

MCInit == BInit
\* emission happens in the initial state (pc = "offer", no call made yet)
Emit ==
  (pc = "offer" /\ calls = {}) =>
    PrintT(<<"SCN", ToJson([m |-> "C14", kind |-> kind, doc |-> doc,
                            entries |-> EntryPointsOf(kind)])>>)
\* explore the calls only for the all-default documents
Explore == (\A f \in FieldsOf(kind) : doc[f] = DefaultOf(f)) \/ calls = {}
MCSpec == MCInit /\ [][BNext]_bvars
=============================================================================
