CONSTANT MaxPair = 2
SPECIFICATION MCSpec
INVARIANT EditInvalidates
INVARIANT Emit
CHECK_DEADLOCK FALSE
