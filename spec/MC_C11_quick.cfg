CONSTANT MaxLen = 2
CONSTANT MaxLenDeep = 3
CONSTANT MaxSiblings = 2
SPECIFICATION MCSpec
INVARIANT RefOnlyEscapesTwo
INVARIANT Emit
CHECK_DEADLOCK FALSE
