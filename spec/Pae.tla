-------------------------------- MODULE Pae --------------------------------
(* DSSE v1 pre-authentication encoding (src/models/envelope/pae_v1.rs).     *)
(* Byte strings are sequences of one-character strings.                     *)
(*   Pack(t, p) = "DSSEv1" SP LEN(t) SP t SP LEN(p) SP p                    *)
(* Unpack is a parser machine with one action per field of the framing.     *)
EXTENDS Naturals, Sequences, TLC

Prefix == <<"D", "S", "S", "E", "v", "1">>
SP == " "
Digits == <<"0", "1", "2", "3", "4", "5", "6", "7", "8", "9">>

RECURSIVE Dec(_)
Dec(n) == IF n < 10 THEN <<Digits[n + 1]>> ELSE Dec(n \div 10) \o <<Digits[(n % 10) + 1]>>

Pack(t, p) == Prefix \o <<SP>> \o Dec(Len(t)) \o <<SP>> \o t \o <<SP>> \o Dec(Len(p)) \o <<SP>> \o p

DigitVal(c) == CHOOSE i \in 0..9 : Digits[i + 1] = c
IsDigit(c) == \E i \in 1..10 : Digits[i] = c

RECURSIVE NumVal(_)
NumVal(ds) == IF ds = << >> THEN 0 ELSE NumVal(SubSeq(ds, 1, Len(ds) - 1)) * 10 + DigitVal(ds[Len(ds)])

IsPrefixOf(pre, s) == Len(pre) <= Len(s) /\ SubSeq(s, 1, Len(pre)) = pre
Drop(s, n) == SubSeq(s, n + 1, Len(s))

VARIABLES input,      \* the bytes being decoded
          rest,       \* what is left to consume
          pc, n, typ, payload, res

pvars == <<input, rest, pc, n, typ, payload, res>>

PInitRest == rest = input /\ pc = "prefix" /\ n = 0 /\ typ = << >> /\ payload = << >> /\ res = "run"

Err == res' = "err" /\ pc' = "done" /\ UNCHANGED <<input, rest, n, typ, payload>>

\* "DSSEv1 "
StripPrefix ==
  /\ pc = "prefix"
  /\ IF IsPrefixOf(Prefix \o <<SP>>, rest)
     THEN rest' = Drop(rest, 7) /\ pc' = "len1" /\ UNCHANGED <<input, n, typ, payload, res>>
     ELSE Err

\* a decimal length up to the next space: digits only (an optional leading "+" is what the
\* integer parser of the code also accepts; it can never be produced by Pack)
LenField(s) ==
  LET I == {i \in 1..Len(s) : s[i] = SP}
  IN IF I = {} THEN [ok |-> FALSE]
     ELSE LET k == CHOOSE i \in I : \A j \in I : i <= j
              f == SubSeq(s, 1, k - 1)
              g == IF f # << >> /\ f[1] = "+" THEN Tail(f) ELSE f
          IN IF g # << >> /\ \A i \in 1..Len(g) : IsDigit(g[i])
             THEN [ok |-> TRUE, val |-> NumVal(g), next |-> Drop(s, k)]
             ELSE [ok |-> FALSE]

ReadLen(from, to) ==
  /\ pc = from
  /\ LET f == LenField(rest) IN
     IF f.ok THEN n' = f.val /\ rest' = f.next /\ pc' = to /\ UNCHANGED <<input, typ, payload, res>>
     ELSE Err

\* n bytes of type followed by a space
ReadType ==
  /\ pc = "body1"
  /\ IF Len(rest) >= n + 1 /\ rest[n + 1] = SP
     THEN typ' = SubSeq(rest, 1, n) /\ rest' = Drop(rest, n + 1) /\ pc' = "len2"
          /\ UNCHANGED <<input, n, payload, res>>
     ELSE Err

\* n bytes of payload
ReadPayload ==
  /\ pc = "body2"
  /\ IF Len(rest) >= n
     THEN payload' = SubSeq(rest, 1, n) /\ res' = "ok" /\ pc' = "done"
          /\ UNCHANGED <<input, rest, n, typ>>
     ELSE Err

PNext == StripPrefix \/ ReadLen("len1", "body1") \/ ReadType \/ ReadLen("len2", "body2") \/ ReadPayload

PDone == pc = "done"
=============================================================================
