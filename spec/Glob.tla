------------------------------- MODULE Glob -------------------------------
(* fnmatch-style matching over character sequences.                         *)
(* A path or pattern is a sequence of one-character strings.  "*" matches   *)
(* any (possibly empty) run of characters including "/", "?" matches any    *)
(* single character including "/" - this is Python's fnmatch, which the     *)
(* in-toto specification refers to, and glob::Pattern::matches with default *)
(* options.  "[" is the one character this module treats as making a        *)
(* pattern uninterpretable (an unterminated character class).               *)
EXTENDS Sequences, Naturals

RECURSIVE GlobM(_, _)
GlobM(p, s) ==
  IF p = << >> THEN s = << >>
  ELSE IF Head(p) = "*"
       THEN GlobM(Tail(p), s) \/ (s # << >> /\ GlobM(p, Tail(s)))
  ELSE IF s = << >> THEN FALSE
  ELSE IF Head(p) = "?" THEN GlobM(Tail(p), Tail(s))
  ELSE Head(p) = Head(s) /\ GlobM(Tail(p), Tail(s))

\* A pattern that no matcher can interpret (unterminated class).
BadPattern(p) == \E i \in 1..Len(p) : p[i] = "["

RECURSIVE Join(_)
Join(s) == IF s = << >> THEN "" ELSE Head(s) \o Join(Tail(s))

IsPrefixSeq(pre, s) == Len(pre) <= Len(s) /\ SubSeq(s, 1, Len(pre)) = pre
DropN(s, n) == SubSeq(s, n + 1, Len(s))
=============================================================================
