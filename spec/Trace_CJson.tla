---------------------------- MODULE Trace_CJson ----------------------------
(* Trace validation of the real canonicaliser (Json::canonicalize) against  *)
(* CJsonValues.tla.  One event per value:                                   *)
(*  {"ev":"canon","v":<abstract value>,"res":"ok"|"err","toks":[..],        *)
(*   "sorted":b,"same":b,"parseback":b,"nums_exact":b}                      *)
(* toks is the output tokenised by the harness (whitespace is a tokeniser   *)
(* error), sorted = member names strictly increasing by code point, same =  *)
(* every textual spelling of the value gave the same bytes, parseback = a   *)
(* JSON parser returns the identical value, nums_exact = every number is    *)
(* the exact integer.  The acceptor Renders decides structure, loss-freedom *)
(* at class level and validity of every escape spelling.                    *)
EXTENDS CJsonValues, Json, IOUtils

Rec == ndJsonDeserialize(IOEnv.TRACE)
VARIABLE l

SeqRange(s) == {s[i] : i \in DOMAIN s}

RECURSIVE VT(_)
VT(x) ==
  CASE x.t = "arr" -> Arr([i \in DOMAIN x.a |-> VT(x.a[i])])
    [] x.t = "obj" -> Obj({[k |-> m.k, v |-> VT(m.v)] : m \in SeqRange(x.o)})
    [] x.t = "null" -> Null
    [] x.t = "bool" -> Bool(x.b)
    [] x.t = "num" -> Num(x.c)
    [] x.t = "str" -> Str(x.s)
    [] x.t = "tower" -> Tower(x.n, x.sh, VT(x.x))

TInit == l = 1 /\ TLCSet(1, 0)

Canon ==
  /\ l <= Len(Rec) /\ Rec[l].ev = "canon"
  /\ LET e == Rec[l]  v == VT(e.v) IN
       /\ e.res \in AllowedRes(v)
       /\ e.same
       /\ e.res = "ok" => /\ e.sorted /\ e.parseback /\ e.nums_exact
                          /\ Renders(e.toks, v)
  /\ l' = l + 1

TSpec == TInit /\ [][Canon]_l

Track == IF l > TLCGet(1) THEN TLCSet(1, l) ELSE TRUE
Accepted ==
  IF TLCGet(1) = Len(Rec) + 1 THEN TRUE
  ELSE PrintT(<<"REJECTED_AT", TLCGet(1)>>) /\ FALSE
=============================================================================
