------------------------------ MODULE MC_C11 ------------------------------
(* Bounded instance of CJson.tla for C11 (and the string part of C05).      *)
(* TLC establishes, for every string up to MaxLen over the 11 classes:      *)
(*   OlpcInjective   the reference signed-bytes encoding is injective       *)
(*   CodeInjective   so is the old signing path (C05 was never at risk)     *)
(*   WitnessExact    the old signing path differs from the reference        *)
(*                   exactly on strings containing class E or C or B        *)
(*                   directly followed by n                                 *)
(* and emits one scenario per (string, field) with the reference atoms the  *)
(* signed bytes must contain for that string.                               *)
EXTENDS CJson, Json

CONSTANTS MaxLen,      \* strings up to this length in every field
          MaxLenDeep,  \* ... and up to this length in the captured-output field
          MaxSiblings  \* sets of up to this many sibling member names (field "order")

Fields == {"link.name", "link.command", "link.stdout", "link.stderr", "link.env_key", "link.env_val",
           "link.path", "link.byp_other", "layout.readme", "layout.step_name", "layout.command",
           "layout.rule_pattern", "layout.inspect_run"}

ASSUME OlpcInjective ==
  Cardinality({Olpc(a) : a \in StrsUpTo(3)}) = Cardinality(StrsUpTo(3))
ASSUME CodeInjective ==
  Cardinality({CodeAsWas(a) : a \in StrsUpTo(3)}) = Cardinality(StrsUpTo(3))
ASSUME WitnessExact ==
  \A a \in StrsUpTo(3) : (CodeAsWas(a) # Olpc(a)) <=> Witness(a)
ASSUME ReferenceIsASpellingExceptControls ==
  \A a \in StrsUpTo(3) : (\A i \in 1..Len(a) : a[i] \notin {"N", "E", "C"}) => Spells(Olpc(a), a)
ASSUME SerdeIsASpelling ==
  \A a \in StrsUpTo(3) : Spells(Serde(a), a)

\* the two member orders differ exactly where a BMP character above the surrogates meets a supplementary one
ASSUME OrdersDifferExactly ==
  \A x, y \in NamesUpTo(2) :
    (CodePointLess(x, y) # Utf16Less(x, y)) <=>
      \E i \in 1..2 : /\ i <= Len(x) /\ i <= Len(y) /\ SubSeq(x, 1, i - 1) = SubSeq(y, 1, i - 1)
                       /\ {x[i], y[i]} = {"H", "S"}
ASSUME CodePointOrderIsTotal ==
  \A x, y \in NamesUpTo(2) : x # y => (CodePointLess(x, y) # CodePointLess(y, x))

\* sets of sibling names, given in descending order
Names2 == NamesUpTo(2)
Pairs == {p \in Names2 \X Names2 : CodePointLess(p[2], p[1])}
Triples == IF MaxSiblings >= 3
           THEN {p \in Names2 \X Names2 \X Names2 : CodePointLess(p[2], p[1]) /\ CodePointLess(p[3], p[2])}
           ELSE {}
SiblingSeqs == Pairs \cup Triples

VARIABLES s, field, pc, ref, old
mcvars == <<s, field, pc, ref, old>>

MCInit ==
  /\ \/ s \in StrsUpTo(MaxLen) /\ field \in Fields
     \/ s \in StrsUpTo(MaxLenDeep) /\ field = "link.stdout"
     \* sibling member names (environment variables, artifact paths, extra byproducts): s is the set, as a sequence
     \/ s \in SiblingSeqs /\ field = "order"
  /\ pc = "start" /\ ref = << >> /\ old = << >>

Encode ==
  /\ pc = "start" /\ field # "order"
  /\ ref' = Olpc(s) /\ old' = CodeAsWas(s) /\ pc' = "done"
  /\ UNCHANGED <<s, field>>

\* ref: the members in the order the signed bytes must have them; old: the UTF-16 order
Order ==
  /\ pc = "start" /\ field = "order"
  /\ ref' = SortSeq(s, CodePointLess) /\ old' = SortSeq(s, Utf16Less) /\ pc' = "done"
  /\ UNCHANGED <<s, field>>

MCSpec == MCInit /\ [][Encode \/ Order]_mcvars

RefOnlyEscapesTwo ==
  (pc = "done" /\ field # "order") => \A i \in 1..Len(ref) : ref[i] = BS => (i < Len(ref) /\ ref[i + 1] \in {BS, "\""}) \/ (i > 1 /\ ref[i - 1] = BS)

Emit ==
  pc = "done" =>
    PrintT(<<"SCN", ToJson(
      [m |-> "C11", field |-> field, s |-> s, ref |-> ref, old |-> old,
       dv |-> IF old = ref THEN << >> ELSE IF field = "order" THEN <<"D_UTF16_MEMBER_ORDER">> ELSE <<"D_C11_SERDE_THEN_REPLACE">>])>>)
=============================================================================
