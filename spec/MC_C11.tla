------------------------------ MODULE MC_C11 ------------------------------
(* Bounded instance of CJson.tla for C11 (and the string part of C05).      *)
(* TLC establishes, for every string up to MaxLen over the 11 classes:      *)
(*   OlpcInjective   the reference signed-bytes encoding is injective       *)
(*   CodeInjective   so is the old signing path (C05 was never at risk)     *)
(*   WitnessExact    the old signing path differs from the reference        *)
(*                   exactly on strings containing class E or C or B        *)
(*                   directly followed by n                                 *)
(* and emits one scenario per (string, field) with the reference atoms the  *)
(* signed bytes must contain for that string.                               *)
EXTENDS CJson, Json

CONSTANTS MaxLen,      \* strings up to this length in every field
          MaxLenDeep   \* ... and up to this length in the captured-output field

Fields == {"link.name", "link.command", "link.stdout", "link.stderr", "link.env_key", "link.env_val",
           "link.path", "link.byp_other", "layout.readme", "layout.step_name", "layout.command",
           "layout.rule_pattern", "layout.inspect_run"}

ASSUME OlpcInjective ==
  Cardinality({Olpc(a) : a \in StrsUpTo(3)}) = Cardinality(StrsUpTo(3))
ASSUME CodeInjective ==
  Cardinality({CodeAsWas(a) : a \in StrsUpTo(3)}) = Cardinality(StrsUpTo(3))
ASSUME WitnessExact ==
  \A a \in StrsUpTo(3) : (CodeAsWas(a) # Olpc(a)) <=> Witness(a)
ASSUME ReferenceIsASpellingExceptControls ==
  \A a \in StrsUpTo(3) : (\A i \in 1..Len(a) : a[i] \notin {"N", "E", "C"}) => Spells(Olpc(a), a)
ASSUME SerdeIsASpelling ==
  \A a \in StrsUpTo(3) : Spells(Serde(a), a)

VARIABLES s, field, pc, ref, old
mcvars == <<s, field, pc, ref, old>>

MCInit ==
  /\ \/ s \in StrsUpTo(MaxLen) /\ field \in Fields
     \/ s \in StrsUpTo(MaxLenDeep) /\ field = "link.stdout"
  /\ pc = "start" /\ ref = << >> /\ old = << >>

Encode ==
  /\ pc = "start"
  /\ ref' = Olpc(s) /\ old' = CodeAsWas(s) /\ pc' = "done"
  /\ UNCHANGED <<s, field>>

MCSpec == MCInit /\ [][Encode]_mcvars

RefOnlyEscapesTwo ==
  pc = "done" => \A i \in 1..Len(ref) : ref[i] = BS => (i < Len(ref) /\ ref[i + 1] \in {BS, "\""}) \/ (i > 1 /\ ref[i - 1] = BS)

Emit ==
  pc = "done" =>
    PrintT(<<"SCN", ToJson(
      [m |-> "C11", field |-> field, s |-> s, ref |-> ref, old |-> old,
       dv |-> IF old # ref THEN <<"D_C11_SERDE_THEN_REPLACE">> ELSE << >>])>>)
=============================================================================
