CONSTANT Dev = {"D_C08_EXIT_STATUS_IGNORED"}
SPECIFICATION MCSpec
INVARIANT OkOnlyIfNec
CHECK_DEADLOCK FALSE
