CONSTANT Dev = {}
CONSTANT Deep = TRUE
SPECIFICATION MCSpec
INVARIANT OkOnlyIfNec
INVARIANT Emit
CHECK_DEADLOCK FALSE
