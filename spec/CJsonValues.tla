---------------------------- MODULE CJsonValues ----------------------------
(* Abstract JSON values over the classes of CJson.tla, the requirement of   *)
(* C10 on them, and an acceptor for token streams (used for trace           *)
(* validation of the real canonicaliser).                                   *)
(*                                                                          *)
(* value = [t |-> "null"] | [t |-> "bool", b] | [t |-> "num", c]            *)
(*       | [t |-> "str", s] | [t |-> "arr", a |-> << value >>]              *)
(*       | [t |-> "obj", o |-> { [k |-> string, v |-> value] }]  (keys distinct) *)
(* token = [k |-> "{" | "}" | "[" | "]" | "," | ":" | "null" | "true" | "false"] *)
(*       | [k |-> "num", c |-> class, exact |-> BOOLEAN]                    *)
(*       | [k |-> "str", s |-> classes, a |-> atoms]                        *)
EXTENDS CJson

Null == [t |-> "null"]
Bool(b) == [t |-> "bool", b |-> b]
Num(c) == [t |-> "num", c |-> c]
Str(s) == [t |-> "str", s |-> s]
Arr(a) == [t |-> "arr", a |-> a]
Obj(o) == [t |-> "obj", o |-> o]

\* a TOWER: the value x inside n containers (arrays, one-member objects, or alternating) - the compact name of a
\* deeply nested value, which scenario and trace lines carry instead of the nesting itself
RECURSIVE Tower(_, _, _)
Tower(n, sh, x) ==
  IF n = 0 THEN x
  ELSE IF sh = "arr" \/ (sh = "mix" /\ n % 2 = 1) THEN Arr(<<Tower(n - 1, sh, x)>>)
  ELSE Obj({[k |-> <<"A">>, v |-> Tower(n - 1, sh, x)]})

RECURSIVE NumsIn(_)
NumsIn(v) ==
  CASE v.t = "num" -> {v.c}
    [] v.t = "arr" -> UNION {NumsIn(v.a[i]) : i \in DOMAIN v.a}
    [] v.t = "obj" -> UNION {NumsIn(m.v) : m \in v.o}
    [] OTHER -> {}

\* C10: a non-integer number anywhere => rejection; integers in range => acceptance
MustReject(v) == \E c \in NumsIn(v) : NumRule(c) = "reject"
MustAccept(v) == \A c \in NumsIn(v) : NumRule(c) = "exact"
AllowedRes(v) == IF MustReject(v) THEN {"err"} ELSE IF MustAccept(v) THEN {"ok"} ELSE {"ok", "err"}

-----------------------------------------------------------------------------
(* Acceptor: parse a token sequence into [ok, v, i] (i = next position).    *)
Fail == [ok |-> FALSE, v |-> Null, i |-> 0]

RECURSIVE PV(_, _), PArr(_, _, _), PObj(_, _, _)

PV(ts, i) ==
  IF i > Len(ts) THEN Fail
  ELSE LET tk == ts[i] IN
    CASE tk.k = "null"  -> [ok |-> TRUE, v |-> Null, i |-> i + 1]
      [] tk.k = "true"  -> [ok |-> TRUE, v |-> Bool(TRUE), i |-> i + 1]
      [] tk.k = "false" -> [ok |-> TRUE, v |-> Bool(FALSE), i |-> i + 1]
      [] tk.k = "num"   -> IF tk.exact THEN [ok |-> TRUE, v |-> Num(tk.c), i |-> i + 1] ELSE Fail
      [] tk.k = "str"   -> IF Spells(tk.a, tk.s) THEN [ok |-> TRUE, v |-> Str(tk.s), i |-> i + 1] ELSE Fail
      [] tk.k = "["     -> IF i + 1 <= Len(ts) /\ ts[i + 1].k = "]"
                           THEN [ok |-> TRUE, v |-> Arr(<< >>), i |-> i + 2]
                           ELSE PArr(ts, i + 1, << >>)
      [] tk.k = "{"     -> IF i + 1 <= Len(ts) /\ ts[i + 1].k = "}"
                           THEN [ok |-> TRUE, v |-> Obj({}), i |-> i + 2]
                           ELSE PObj(ts, i + 1, {})
      [] OTHER -> Fail

\* elements separated by exactly one ",", closed by "]"
PArr(ts, i, acc) ==
  LET r == PV(ts, i) IN
  IF ~r.ok \/ r.i > Len(ts) THEN Fail
  ELSE IF ts[r.i].k = "]" THEN [ok |-> TRUE, v |-> Arr(Append(acc, r.v)), i |-> r.i + 1]
  ELSE IF ts[r.i].k = "," THEN PArr(ts, r.i + 1, Append(acc, r.v))
  ELSE Fail

\* members  string ":" value  separated by ",", closed by "}", keys distinct
PObj(ts, i, acc) ==
  IF i + 1 > Len(ts) \/ ts[i].k # "str" \/ ts[i + 1].k # ":" \/ ~Spells(ts[i].a, ts[i].s) THEN Fail
  ELSE IF \E m \in acc : m.k = ts[i].s THEN Fail
  ELSE LET r == PV(ts, i + 2) IN
    IF ~r.ok \/ r.i > Len(ts) THEN Fail
    ELSE LET acc2 == acc \cup {[k |-> ts[i].s, v |-> r.v]} IN
      IF ts[r.i].k = "}" THEN [ok |-> TRUE, v |-> Obj(acc2), i |-> r.i + 1]
      ELSE IF ts[r.i].k = "," THEN PObj(ts, r.i + 1, acc2)
      ELSE Fail

\* the token sequence is a whitespace-free, loss-free rendering of v
Renders(ts, v) == LET r == PV(ts, 1) IN r.ok /\ r.i = Len(ts) + 1 /\ r.v = v
=============================================================================
