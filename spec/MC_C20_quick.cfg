CONSTANT MaxDec = 5
SPECIFICATION MCSpec
INVARIANT RoundTrip
INVARIANT Total
INVARIANT Emit
CHECK_DEADLOCK FALSE
