SPECIFICATION TSpec
CONSTRAINT Track
INVARIANT Sound
INVARIANT CountedGood
POSTCONDITION Accepted
CHECK_DEADLOCK FALSE
