-------------------------------- MODULE Wire --------------------------------
(* Wire formats (C16, C17, C19).                                            *)
(*                                                                          *)
(* Part A - the artifact-rule grammar as a parser machine over token        *)
(*   sequences:  MATCH pat [IN src] WITH (MATERIALS|PRODUCTS) [IN dst] FROM  *)
(*   step  |  (CREATE|DELETE|MODIFY|ALLOW|REQUIRE|DISALLOW) pat.            *)
(*   Operands are arbitrary strings - they may spell a keyword.             *)
(* Part B - the document life cycle  value -Serialize-> text -Respell->     *)
(*   text' -Parse(channel)-> value' -Serialize-> text''  with the           *)
(*   requirements value' = value, text'' = text, and channel / spelling     *)
(*   independence.  Documents are described by SHAPE DESCRIPTORS (which     *)
(*   optional parts are present, which variant each part takes); the        *)
(*   harness builds the concrete document of a descriptor.                  *)
(*   Damage: a document may also reach the parser with one leaf altered so   *)
(*   that a validating field becomes invalid (DamageKinds); whatever the    *)
(*   verdict on it, it is the same on every channel.                        *)
(* Part C - attestation schemas: closed field sets of the statement and     *)
(*   predicate formats; recognition must yield at most one version, and a   *)
(*   v0.1 statement's declared predicate type must name the format of the   *)
(*   predicate it contains.                                                 *)
EXTENDS Naturals, Sequences, FiniteSets, TLC

-----------------------------------------------------------------------------
(* Part A *)
SimpleKinds == {"CREATE", "DELETE", "MODIFY", "ALLOW", "REQUIRE", "DISALLOW"}

RuleFail == [ok |-> FALSE]
\* the grammar, as one deterministic left-to-right parse
ParseRule(ts) ==
  IF Len(ts) < 2 THEN RuleFail
  ELSE IF ts[1] \in SimpleKinds
       THEN IF Len(ts) = 2 THEN [ok |-> TRUE, k |-> ts[1], pat |-> ts[2], src |-> "", hasSrc |-> FALSE,
                                 dst |-> "", hasDst |-> FALSE, with |-> "", from |-> ""]
            ELSE RuleFail
  ELSE IF ts[1] # "MATCH" THEN RuleFail
  ELSE
    LET hasSrc == Len(ts) >= 3 /\ ts[3] = "IN"
        i == IF hasSrc THEN 5 ELSE 3                     \* position of WITH
    IN IF Len(ts) < i + 1 \/ ts[i] # "WITH" \/ ts[i + 1] \notin {"MATERIALS", "PRODUCTS"} THEN RuleFail
       ELSE
         LET hasDst == Len(ts) >= i + 2 /\ ts[i + 2] = "IN"
             j == IF hasDst THEN i + 4 ELSE i + 2        \* position of FROM
         IN IF Len(ts) # j + 1 \/ ts[j] # "FROM" THEN RuleFail
            ELSE [ok |-> TRUE, k |-> "MATCH", pat |-> ts[2],
                  src |-> IF hasSrc THEN ts[4] ELSE "", hasSrc |-> hasSrc,
                  dst |-> IF hasDst THEN ts[i + 3] ELSE "", hasDst |-> hasDst,
                  with |-> ts[i + 1], from |-> ts[j + 1]]

\* the serialised form of a parsed rule
UnparseRule(r) ==
  IF r.k # "MATCH" THEN <<r.k, r.pat>>
  ELSE <<"MATCH", r.pat>> \o (IF r.hasSrc THEN <<"IN", r.src>> ELSE << >>) \o <<"WITH", r.with>>
       \o (IF r.hasDst THEN <<"IN", r.dst>> ELSE << >>) \o <<"FROM", r.from>>

\* parser machine form (one action per grammar position) for the trace / coverage view
VARIABLES toks, pos, pc, acc, res
wvars == <<toks, pos, pc, acc, res>>

WInitRest == pos = 1 /\ pc = "kind" /\ acc = [k |-> ""] /\ res = "run"

Reject == res' = "err" /\ pc' = "done" /\ UNCHANGED <<toks, pos, acc>>
Have(n) == pos + n - 1 <= Len(toks)

ReadKind ==
  /\ pc = "kind"
  /\ IF ~Have(2) THEN Reject
     ELSE IF toks[pos] \in SimpleKinds
          THEN IF Len(toks) = 2
               THEN /\ acc' = ParseRule(toks) /\ res' = "ok" /\ pc' = "done" /\ UNCHANGED <<toks, pos>>
               ELSE Reject
     ELSE IF toks[pos] = "MATCH" THEN pc' = "src" /\ pos' = 3 /\ UNCHANGED <<toks, acc, res>>
     ELSE Reject

ReadSrc ==
  /\ pc = "src"
  /\ IF Have(1) /\ toks[pos] = "IN"
     THEN IF Have(2) THEN pc' = "with" /\ pos' = pos + 2 /\ UNCHANGED <<toks, acc, res>> ELSE Reject
     ELSE pc' = "with" /\ UNCHANGED <<toks, pos, acc, res>>

ReadWith ==
  /\ pc = "with"
  /\ IF Have(2) /\ toks[pos] = "WITH" /\ toks[pos + 1] \in {"MATERIALS", "PRODUCTS"}
     THEN pc' = "dst" /\ pos' = pos + 2 /\ UNCHANGED <<toks, acc, res>>
     ELSE Reject

ReadDst ==
  /\ pc = "dst"
  /\ IF Have(1) /\ toks[pos] = "IN"
     THEN IF Have(2) THEN pc' = "from" /\ pos' = pos + 2 /\ UNCHANGED <<toks, acc, res>> ELSE Reject
     ELSE pc' = "from" /\ UNCHANGED <<toks, pos, acc, res>>

ReadFrom ==
  /\ pc = "from"
  /\ IF Have(2) /\ toks[pos] = "FROM" /\ Len(toks) = pos + 1
     THEN acc' = ParseRule(toks) /\ res' = "ok" /\ pc' = "done" /\ UNCHANGED <<toks, pos>>
     ELSE Reject

WNext == ReadKind \/ ReadSrc \/ ReadWith \/ ReadDst \/ ReadFrom
WDone == pc = "done"

\* the machine and the functional grammar agree; accepted rules round-trip
MachineAgrees == WDone => ((res = "ok") <=> ParseRule(toks).ok)
RuleRoundTrip == (WDone /\ res = "ok") => UnparseRule(acc) = toks /\ ParseRule(UnparseRule(acc)) = acc

-----------------------------------------------------------------------------
(* Part B: channels, spellings, damages *)
Channels == {"str", "slice", "reader", "value", "json_slice", "json_reader", "json_tree", "jsonpretty_reader",
             "reader_pieces", "json_reader_pieces"}     \* readers handing the text out a few bytes per call
Spellings6 == {"plain", "ws", "uescape", "trailing_garbage", "concatenated", "truncated"}
\* texts padded with characters that are NOT JSON white space (form feed, vertical tab, no-break space, BOM, NUL)
PaddedSpellings == {"pad_ff", "pad_vt", "pad_nbsp", "pad_bom", "pad_nul"}
\* a text in which a member occurs twice is no tree: on such texts only the text channels are compared (with each
\* other and with the type's own byte entry point, e.g. MetadataWrapper::try_from_bytes)
TextChannels == Channels \ {"value", "json_tree"}
\* one leaf of the document: string shorter / longer / empty, number negative / beyond 32 bits / fractional,
\* member removed, unknown member added (holding a float, null or nested value)
DamageKinds == {"shorter", "longer", "empty", "negative", "huge", "fraction", "removed", "unknown_member"}
\* C17: the verdict (and value) is a function of the content alone
ChannelIndependent(verdictOf(_, _)) ==
  \A content \in {"asis"} \cup DamageKinds, c1, c2 \in Channels : verdictOf(content, c1) = verdictOf(content, c2)

-----------------------------------------------------------------------------
(* Part C: attestation schemas *)
LinkV02Req == {"name", "materials", "command", "byproducts"}
LinkV02Opt == {"env"}
SlsaV01Req == {"builder"}
SlsaV01Opt == {"recipe", "metadata", "materials"}
SlsaV02Req == {"builder", "buildType"}
SlsaV02Opt == {"invocation", "buildConfig", "metadata", "materials"}
PredFields == LinkV02Req \cup LinkV02Opt \cup SlsaV01Req \cup SlsaV01Opt \cup SlsaV02Req \cup SlsaV02Opt

\* "materials" is a map in the link predicate and a list in the SLSA predicates
Accepts(req, opt, fields) == req \subseteq fields /\ fields \subseteq req \cup opt
PredVersions(fields, matKind) ==
  {v \in {"link02", "slsa01", "slsa02"} :
     CASE v = "link02" -> Accepts(LinkV02Req, LinkV02Opt, fields) /\ ("materials" \in fields => matKind = "map")
       [] v = "slsa01" -> Accepts(SlsaV01Req, SlsaV01Opt, fields) /\ ("materials" \in fields => matKind = "list")
       [] v = "slsa02" -> Accepts(SlsaV02Req, SlsaV02Opt, fields) /\ ("materials" \in fields => matKind = "list")}

NaiveReq == {"_type", "name", "materials", "products", "command", "byproducts"}
NaiveOpt == {"env"}
V01Req == {"_type", "subject", "predicateType", "predicate"}
StmtFields == NaiveReq \cup NaiveOpt \cup V01Req
StmtVersions(fields) ==
  {v \in {"naive", "v01"} :
     CASE v = "naive" -> Accepts(NaiveReq, NaiveOpt, fields)
       [] v = "v01"   -> Accepts(V01Req, {}, fields)}

\* closed schemas keep the formats disjoint: at most one version ever recognises a document
ASSUME PredDisjoint ==
  \A fs \in SUBSET PredFields, mk \in {"map", "list"} : Cardinality(PredVersions(fs, mk)) <= 1
ASSUME StmtDisjoint ==
  \A fs \in SUBSET StmtFields : Cardinality(StmtVersions(fs)) <= 1

TypeString(v) == CASE v = "link02" -> "https://in-toto.io/Link/v0.2"
                   [] v = "slsa01" -> "https://slsa.dev/provenance/v0.1"
                   [] v = "slsa02" -> "https://slsa.dev/provenance/v0.2"
                   [] OTHER -> "https://example.com/unknown"
\* a v0.1 statement is acceptable only if the declared type names the contained predicate's format
StmtV01Ok(declared, contained) == declared = contained /\ contained \in {"link02", "slsa01", "slsa02"}
=============================================================================
