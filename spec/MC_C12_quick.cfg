SPECIFICATION MCSpec
INVARIANT Intrinsic
PROPERTY JsonIsIdentity
INVARIANT Emit
CHECK_DEADLOCK FALSE
