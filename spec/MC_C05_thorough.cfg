CONSTANT MaxPair = 3
SPECIFICATION MCSpec
INVARIANT EditInvalidates
INVARIANT Emit
CHECK_DEADLOCK FALSE
