---------------------------- MODULE Determinism ----------------------------
(* C13 as a trace property over an observation history of the real          *)
(* implementation.                                                          *)
(*   declare(id, set)   the outcomes Verify.tla admits for scenario id      *)
(*                      (union over every choice of representative link)    *)
(*   observe(id, obs)   one run of in_toto_verify on scenario id gave obs   *)
(* A history is accepted iff every observation is admitted by the           *)
(* specification and all observations of one scenario are equal.            *)
EXTENDS Naturals, Sequences, TLC, Json, IOUtils

Rec == ndJsonDeserialize(IOEnv.TRACE)

VARIABLES l, poss, memo
dvars == <<l, poss, memo>>

SeqRange(s) == {s[i] : i \in DOMAIN s}

DInit == l = 1 /\ TLCSet(1, 0) /\ poss = << >> /\ memo = << >>

IsEvent(e) == l <= Len(Rec) /\ Rec[l].ev = e /\ l' = l + 1

Declare ==
  /\ IsEvent("declare")
  /\ poss' = poss @@ (Rec[l].id :> SeqRange(Rec[l].set))
  /\ UNCHANGED memo

Observe ==
  /\ IsEvent("observe")
  /\ Rec[l].id \in DOMAIN poss => Rec[l].obs \in poss[Rec[l].id]
  /\ IF Rec[l].id \in DOMAIN memo
     THEN memo[Rec[l].id] = Rec[l].obs /\ UNCHANGED memo
     ELSE memo' = memo @@ (Rec[l].id :> Rec[l].obs)
  /\ UNCHANGED poss

DNext == Declare \/ Observe
DSpec == DInit /\ [][DNext]_dvars

Track == IF l > TLCGet(1) THEN TLCSet(1, l) ELSE TRUE
Accepted ==
  IF TLCGet(1) = Len(Rec) + 1 THEN TRUE
  ELSE PrintT(<<"REJECTED_AT", TLCGet(1)>>) /\ FALSE
=============================================================================
