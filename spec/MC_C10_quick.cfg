CONSTANT Tier = "quick"
SPECIFICATION MCSpec
INVARIANT WriterAccepted
INVARIANT VerdictAllowed
INVARIANT Emit
CHECK_DEADLOCK FALSE
