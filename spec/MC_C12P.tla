------------------------------ MODULE MC_C12P ------------------------------
(* C12 inside the pipeline: "a signature attributed to identifier X is only *)
(* ever checked against, and counted for, the key whose identifier is X".   *)
(* A step with two authorised functionaries; the evidence filed under X     *)
(* carries an entry attributed to X (genuine, invalid, or made with another *)
(* key) next to - possibly valid - entries of other keys.  Only a valid     *)
(* signature OF X makes that file count, and it counts once, for X.         *)
EXTENDS VerifyMC

ProdA == {Art(PA, "h1")}
As(x, y) == [kid |-> x, by |-> y, ok |-> TRUE]      \* an entry attributed to x, made with y's private key

\* signature lists of the file filed under k1
UnderK1 == {<<GoodSig("k1")>>,
            <<BadSig("k1")>>,
            <<BadSig("k1"), GoodSig("k2")>>, <<GoodSig("k2"), BadSig("k1")>>,
            <<BadSig("k1"), GoodSig("k3")>>,
            <<As("k1", "k2")>>, <<As("k1", "k2"), GoodSig("k2")>>,
            <<GoodSig("k1"), GoodSig("k2")>>, <<GoodSig("k1"), BadSig("k2")>>}
\* ... and of the one filed under k2 ("absent": no such file)
UnderK2 == {<< >>, <<GoodSig("k2")>>, <<BadSig("k2")>>, <<BadSig("k2"), GoodSig("k1")>>, <<As("k2", "k1")>>}

Layout(thr, pubs) ==
  LayoutD(<<GoodSig("o1")>>, 1000, <<"k1", "k2", "k3">>,
          <<StepD("s1", pubs, thr, << >>, <<Simple("ALLOW", <<"*">>)>>)>>, << >>)

MCInit ==
  /\ \E thr \in {1, 2}, pubs \in {<<"k1", "k2">>, <<"k2", "k1">>}, s1 \in UnderK1, s2 \in UnderK2 :
       scn = Build(Layout(thr, pubs), Own("o1"),
                   <<Entry(<< >>, "s1", "k1", LinkD("s1", s1, {}, ProdA))>>
                   \o (IF s2 = << >> THEN << >> ELSE <<Entry(<< >>, "s1", "k2", LinkD("s1", s2, {}, ProdA))>>), {})
  /\ VInitRest

MCSpec == MCInit /\ [][VNext]_vars
Emit == EmitAs("C12")
=============================================================================
