------------------------------ MODULE MC_C15 ------------------------------
(* Bounded instance of Verify.tla for C15: the evidence of step s1 is a     *)
(* sub-layout in one of the states C15 lists; inner step sequences of       *)
(* length 1..3 with pairwise distinct materials / products / command /      *)
(* byproducts so that the summary is discriminating; depth 3 optionally.    *)
EXTENDS VerifyMC

CONSTANT Deep   \* TRUE: also delegate the first inner step once more

PM(i) == <<"m", ToString(i)>>
PP(i) == <<"p", ToString(i)>>
InName(i) == "in" \o ToString(i)

InnerLink(i, signer, sigok) ==
  LinkD(InName(i), IF sigok THEN <<GoodSig(signer)>> ELSE <<BadSig(signer)>>,
        {Art(PM(i), "h1")}, {Art(PP(i), "h1")})

\* the delegated step may carry a dot in its name; "siblingdir": its inner links are placed in the
\* directory that belongs to the name before the dot (another step's delegation directory)
SNames == {"s1", "s1.v2"}
States == {"valid", "siblingdir", "othersigner", "misfiled", "unauthorised", "expired", "tampered", "innermissing",
           "innerunauth", "innerbadsig", "innerrule", "wrongdir", "ownersigned", "nosig", "innerbyparent",
           \* the sub-layout has an inspection of its own: passing; exiting with status 3; passing with a rule it breaks
           "innerinspok", "innerinspfail", "innerinsprule"}

JCmd(code) == [kind |-> "exit", code |-> code, effect |-> "none", path |-> << >>, digest |-> "h2"]
InnerInsp(state) ==
  IF state \notin {"innerinspok", "innerinspfail", "innerinsprule"} THEN << >>
  ELSE <<[name |-> "j1", namec |-> <<"j", "1">>, cmd |-> JCmd(IF state = "innerinspfail" THEN 3 ELSE 0),
          em |-> <<Simple("ALLOW", <<"*">>)>>,
          ep |-> IF state = "innerinsprule" THEN <<Simple("DISALLOW", <<"*">>)>> ELSE <<Simple("ALLOW", <<"*">>)>>]>>

InnerSteps(n, state) ==
  \* "innerbyparent": the inner steps name the delegating functionary's own key, which the sub-layout's key
  \* table does not define, and that key signed the inner links
  [i \in 1..n |-> StepD(InName(i), IF state = "innerbyparent" THEN <<"k1">> ELSE <<"k3">>, 1, << >>,
                        IF state = "innerrule" /\ i = n THEN <<Simple("DISALLOW", <<"*">>)>>
                        ELSE <<Simple("ALLOW", <<"*">>)>>)]

SubSigs(state) ==
  CASE state = "othersigner" -> <<Relabel("k1", "k2")>>
    [] state = "misfiled"    -> <<GoodSig("k2")>>
    [] state = "ownersigned" -> <<GoodSig("o1")>>
    [] state = "nosig"       -> << >>
    [] state = "unauthorised" -> <<GoodSig("k2")>>
    [] OTHER                 -> <<GoodSig("k1")>>

SubDoc(n, state) ==
  [LayoutD(SubSigs(state), IF state = "expired" THEN -5 ELSE 1000, <<"k3", "k2">>,
           InnerSteps(n, state), InnerInsp(state))
   EXCEPT !.edit = IF state = "tampered" THEN "threshold" ELSE "none"]

FileKey(state) == IF state = "unauthorised" THEN "k2" ELSE "k1"
InnerDirN(sname, state) ==
  IF state = "wrongdir" THEN << >>
  ELSE IF state = "siblingdir" THEN <<"s1." \o FileKey(state)>>
  ELSE <<sname \o "." \o FileKey(state)>>

\* the first inner step delegated once more (depth 3): in1 is a sub-sub-layout by k3 with step z1 by k2
SubSub(ok) ==
  LayoutD(<<GoodSig("k3")>>, IF ok THEN 1000 ELSE -5, <<"k2">>,
          <<StepD("z1", <<"k2">>, 1, << >>, <<Simple("ALLOW", <<"*">>)>>)>>, << >>)

InnerEntries(sname, n, state, deepok) ==
  LET dir == InnerDirN(sname, state) IN
  [i \in 1..n |->
     IF i = 1 /\ Deep /\ state \notin {"innermissing"}
     THEN Entry(dir, InName(1), "k3", SubSub(deepok))
     ELSE CASE state = "innerunauth" /\ i = n -> Entry(dir, InName(i), "k2", InnerLink(i, "k2", TRUE))
            [] state = "innerbadsig" /\ i = n -> Entry(dir, InName(i), "k3", InnerLink(i, "k3", FALSE))
            [] state = "innerbyparent" -> Entry(dir, InName(i), "k1", InnerLink(i, "k1", TRUE))
            [] OTHER -> Entry(dir, InName(i), "k3", InnerLink(i, "k3", TRUE))]
DeepEntries(sname, state) ==
  IF Deep /\ state \notin {"innermissing"}
  THEN <<Entry(Append(InnerDirN(sname, state), "in1.k3"), "z1", "k2",
               LinkD("z1", <<GoodSig("k2")>>, {Art(PM(1), "h1")}, {Art(PP(1), "h1")}))>>
  ELSE << >>

Top1(sname) ==
  LayoutD(<<GoodSig("o1")>>, 1000, <<"k1", "k2", "k3">>,
          <<StepD(sname, <<"k1">>, 1, <<Simple("ALLOW", <<"*">>)>>, <<Simple("ALLOW", <<"*">>)>>)>>, << >>)

\* two functionaries delegate the same step with ONE sub-layout (the same content, signed by both, filed
\* under each name): each copy must pass against its OWN sub-directory, whatever the state of the other's
CoStates == {"valid", "empty", "unauth", "badsig"}
CoTop(thr) ==
  LayoutD(<<GoodSig("o1")>>, 1000, <<"k1", "k2", "k3">>,
          <<StepD("s1", <<"k1", "k2">>, thr, <<Simple("ALLOW", <<"*">>)>>, <<Simple("ALLOW", <<"*">>)>>)>>, << >>)
CoSub(cosigned, k) ==
  LayoutD(IF cosigned THEN <<GoodSig("k1"), GoodSig("k2")>> ELSE <<GoodSig(k)>>, 1000, <<"k3", "k2">>,
          InnerSteps(1, "valid"), << >>)
CoInner(k, st) ==
  LET dir == <<"s1." \o k>> IN
  CASE st = "valid"  -> <<Entry(dir, "in1", "k3", InnerLink(1, "k3", TRUE))>>
    [] st = "empty"  -> << >>
    [] st = "unauth" -> <<Entry(dir, "in1", "k2", InnerLink(1, "k2", TRUE))>>
    [] st = "badsig" -> <<Entry(dir, "in1", "k3", InnerLink(1, "k3", FALSE))>>
CoFiled(thr, cosigned, st1, st2) ==
  Build(CoTop(thr), Own("o1"),
        <<Entry(<< >>, "s1", "k1", CoSub(cosigned, "k1")), Entry(<< >>, "s1", "k2", CoSub(cosigned, "k2"))>>
        \o CoInner("k1", st1) \o CoInner("k2", st2), {})

CoInit ==
  \E thr \in {1, 2}, cosigned \in BOOLEAN, st1 \in CoStates, st2 \in CoStates :
     ~Deep /\ scn = CoFiled(thr, cosigned, st1, st2)

OneInit ==
  \E sname \in SNames, n \in 0..3, state \in States, deepok \in BOOLEAN :
       /\ (n = 0 => state \in {"valid", "expired", "othersigner", "nosig"} /\ ~Deep)   \* a sub-layout without steps: empty summary
       /\ (~Deep => deepok)
       /\ (state = "siblingdir" => sname = "s1.v2")
       /\ scn = Build(Top1(sname), Own("o1"),
                      <<Entry(<< >>, sname, FileKey(state), SubDoc(n, state))>>
                      \o (IF state = "innermissing" /\ n > 0 THEN SubSeq(InnerEntries(sname, n, state, deepok), 1, n - 1)
                          ELSE InnerEntries(sname, n, state, deepok))
                      \o DeepEntries(sname, state), {})

\* an inner step whose NAME climbs out of the dedicated sub-directory ("../in1"): the link that would satisfy
\* it lies in the parent's directory, the sub-directory itself holds nothing for that step
DotDotInit ==
  \E up \in {"../in1", "./../in1", "x/../../in1"} :
     ~Deep /\ scn = Build(Top1("s1"), Own("o1"),
                   <<Entry(<< >>, "s1", "k1",
                           LayoutD(<<GoodSig("k1")>>, 1000, <<"k3", "k2">>,
                                   <<StepD(up, <<"k3">>, 1, << >>, <<Simple("ALLOW", <<"*">>)>>)>>, << >>)),
                     Entry(<< >>, "in1", "k3", InnerLink(1, "k3", TRUE)),
                     Entry(<<"s1.k1">>, "zz", "k3", [InnerLink(1, "k3", TRUE) EXCEPT !.name = "zz"]),
                     Entry(<<"s1.k1", "x">>, "zz", "k3", [InnerLink(1, "k3", TRUE) EXCEPT !.name = "zz"])>>, {})

MCInit == (CoInit \/ OneInit \/ DotDotInit) /\ VInitRest

MCSpec == MCInit /\ [][VNext]_vars
Emit == EmitAs("C15")
=============================================================================
