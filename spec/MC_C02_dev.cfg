CONSTANT Dev = {"D_C02_ANY_LAYOUT_KEY"}
CONSTANT Tier = "quick"
SPECIFICATION MCSpec
INVARIANT OkOnlyIfNec
CHECK_DEADLOCK FALSE
