CONSTANT MaxLen = 3
CONSTANT MaxLenDeep = 4
CONSTANT MaxSiblings = 3
SPECIFICATION MCSpec
INVARIANT RefOnlyEscapesTwo
INVARIANT Emit
CHECK_DEADLOCK FALSE
