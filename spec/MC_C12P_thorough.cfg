CONSTANT Dev = {}
SPECIFICATION MCSpec
INVARIANT OkOnlyIfNec
INVARIANT C08Order
INVARIANT C08Written
INVARIANT Emit
CHECK_DEADLOCK FALSE
