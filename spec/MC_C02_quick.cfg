CONSTANT Dev = {}
CONSTANT Tier = "quick"
SPECIFICATION MCSpec
INVARIANT OkOnlyIfNec
INVARIANT Emit
CHECK_DEADLOCK FALSE
