------------------------------ MODULE MC_C20 ------------------------------
(* Bounded instance of Pae.tla for C20.                                     *)
(*  - round trip: for every (type, payload) inside the bounds the parser    *)
(*    machine run on Pack(t, p) ends with exactly (t, p);                   *)
(*  - injectivity: the packed strings of distinct pairs are distinct;       *)
(*  - decoding: every string up to MaxDec over the framing alphabet after   *)
(*    the prefix ends in "ok" or "err" (the machine has no other exit).     *)
EXTENDS Pae, Json, FiniteSets

CONSTANTS MaxDec

SmallAlpha == {" ", "1", "a"}
Small == UNION {[1..m -> SmallAlpha] : m \in 0..3}
Long(len) == [i \in 1..len |-> "a"]
\* (lengths around every power of ten that a model string can reasonably have: the decimal length fields change width there)
Types == Small \cup {Long(9), Long(10), Long(11), Long(100), Long(1000), <<"a", " ", "1", "0", " ">>}
Payloads == Small \cup {Long(9), Long(10), Long(99), Long(100), Long(101), Long(999), Long(1000), Long(1001), <<"1", " ", "a", " ", "2">>}
\* payloads that are themselves complete encodings - of the same type, of another type, followed by more bytes,
\* nested twice: framing is by the length fields alone, a payload's content is never looked at
NestT == {<< >>, <<"a">>, <<"a", " ">>}
NestP == {<< >>, <<"a">>}
Nested == {<<t, Pack(t, p)>> : t \in NestT, p \in NestP}
          \cup {<<t, Pack(t, p) \o <<"a">>>> : t \in NestT, p \in NestP}
          \cup {<<t, Pack(<<"1">>, p)>> : t \in NestT, p \in NestP}
          \cup {<<t, Pack(t, Pack(t, p))>> : t \in NestT, p \in NestP}
Pairs == (Types \X Payloads) \cup Nested

DecAlpha == {" ", "0", "1", "2", "9", "+", "a"}
DecInputs == UNION {[1..m -> DecAlpha] : m \in 0..MaxDec}
Mangled == {SubSeq(Pack(<<"a">>, <<"a", "a">>), 1, k) : k \in 0..Len(Pack(<<"a">>, <<"a", "a">>))}

VARIABLES kind, t0, p0
mcvars == <<pvars, kind, t0, p0>>

RECURSIVE Join(_)
Join(s) == IF s = << >> THEN "" ELSE Head(s) \o Join(Tail(s))

MCInit ==
  /\ \/ /\ kind = "rt" /\ \E pr \in Pairs : t0 = pr[1] /\ p0 = pr[2] /\ input = Pack(pr[1], pr[2])
     \/ /\ kind = "dec" /\ t0 = << >> /\ p0 = << >>
        /\ \E d \in DecInputs : input = Prefix \o <<SP>> \o d
     \/ /\ kind = "dec" /\ t0 = << >> /\ p0 = << >>
        /\ input \in Mangled
  /\ PInitRest

UK == UNCHANGED <<kind, t0, p0>>
AStripPrefix == StripPrefix /\ UK
AReadLen1 == ReadLen("len1", "body1") /\ UK
AReadType == ReadType /\ UK
AReadLen2 == ReadLen("len2", "body2") /\ UK
AReadPayload == ReadPayload /\ UK
MCNext == AStripPrefix \/ AReadLen1 \/ AReadType \/ AReadLen2 \/ AReadPayload
MCSpec == MCInit /\ [][MCNext]_mcvars

RoundTrip == (PDone /\ kind = "rt") => (res = "ok" /\ typ = t0 /\ payload = p0)
Total == PDone => res \in {"ok", "err"}

ASSUME Injective == Cardinality({Pack(pr[1], pr[2]) : pr \in Pairs}) = Cardinality(Pairs)

Emit ==
  PDone =>
    PrintT(<<"SCN", ToJson(
      [m |-> "C20", kind |-> kind, input |-> Join(input), t |-> Join(t0), p |-> Join(p0),
       out |-> res, typ |-> Join(typ), payload |-> Join(payload),
       allow |-> IF kind = "rt" THEN <<"ok">> ELSE <<"ok", "err">>])>>)
=============================================================================
