---------------------------- MODULE Trace_Rules ----------------------------
(* Trace validation for Rules.tla.  The rule engine's hook logs, after each *)
(* rule that did not fail, the consumed set and the remaining queue; the    *)
(* harness prefixes every run with the abstract input and appends the       *)
(* verdict.  Every logged step must be exactly the enabled Apply step of    *)
(* the specification (same consumed set, same queue), list switches and the *)
(* failing Apply are silent steps, and the verdict must be the              *)
(* specification's.                                                         *)
EXTENDS Rules, Json, IOUtils

Rec == ndJsonDeserialize(IOEnv.TRACE)
CONSTANT TraceDev

VARIABLE l
tvars == <<rvars, l>>

SeqRange(s) == {s[i] : i \in DOMAIN s}
ArtSet(s) == {[p |-> a.p, d |-> a.d] : a \in SeqRange(s)}
RuleOf(r) == [k |-> r.k, pat |-> r.pat, src |-> r.src, dst |-> r.dst, with |-> r.with, from |-> r.from]

TInit ==
  /\ l = 1 /\ TLCSet(1, 0)
  /\ item = [name |-> "", em |-> << >>, ep |-> << >>] /\ links = << >> /\ dev = TraceDev
  /\ phase = "M" /\ idx = 1 /\ queue = {} /\ res = "idle" /\ last = [k |-> "none"]

IsEvent(e) == l <= Len(Rec) /\ Rec[l].ev = e /\ l' = l + 1

TReset ==
  /\ IsEvent("reset") /\ res = "idle"
  /\ LET r == Rec[l]
         ls == [n \in {x.name : x \in SeqRange(r.links)} |->
                  LET x == CHOOSE y \in SeqRange(r.links) : y.name = n
                  IN [mats |-> ArtSet(x.mats), prods |-> ArtSet(x.prods)]]
     IN /\ item' = [name |-> r.name,
                    em |-> [i \in DOMAIN r.em |-> RuleOf(r.em[i])],
                    ep |-> [i \in DOMAIN r.ep |-> RuleOf(r.ep[i])]]
        /\ links' = ls
        /\ phase' = "M" /\ idx' = 1 /\ last' = [k |-> "none"]
        /\ IF r.name \in DOMAIN ls
           THEN queue' = Paths(ls[r.name].mats) /\ res' = "run"
           ELSE queue' = {} /\ res' = "err"
  /\ UNCHANGED dev

TRule ==
  /\ IsEvent("rule")
  /\ phase = Rec[l].phase
  /\ Apply
  /\ res' = "run"
  /\ last'.rule.k = Rec[l].kind
  /\ last'.consumed = SeqRange(Rec[l].consumed)
  /\ queue' = SeqRange(Rec[l].queue)

TSilent ==
  /\ l <= Len(Rec) /\ Rec[l].ev \in {"rule", "result"}
  /\ \/ NextList
     \/ Apply /\ res' = "err"
  /\ UNCHANGED l

TResult ==
  /\ IsEvent("result") /\ Terminal /\ res = Rec[l].out
  /\ res' = "idle"
  /\ UNCHANGED <<item, links, dev, phase, idx, queue, last>>

TNext == TReset \/ TRule \/ TSilent \/ TResult
TSpec == TInit /\ [][TNext]_tvars

Track == IF l > TLCGet(1) THEN TLCSet(1, l) ELSE TRUE
Accepted ==
  IF TLCGet(1) = Len(Rec) + 1 THEN TRUE
  ELSE PrintT(<<"REJECTED_AT", TLCGet(1)>>) /\ FALSE
=============================================================================
