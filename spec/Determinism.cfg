SPECIFICATION DSpec
CONSTRAINT Track
POSTCONDITION Accepted
CHECK_DEADLOCK FALSE
