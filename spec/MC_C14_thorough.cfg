SPECIFICATION MCSpec
INVARIANT Total
INVARIANT Emit
CONSTRAINT Explore
CHECK_DEADLOCK FALSE
