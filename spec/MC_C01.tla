------------------------------ MODULE MC_C01 ------------------------------
(* Bounded instance of Verify.tla for C01: who signed the layout x which    *)
(* key set the caller passes x post-signing edit of one field x shape of    *)
(* the signature list; everything downstream valid.                         *)
EXTENDS VerifyMC

ProdA == {Art(PA, "h1")}

CKeySets ==
  {<< >>, Own("o1"), Own("o2"), Own("o3"),
   <<[label |-> "o1", key |-> "o1"], [label |-> "o2", key |-> "o2"]>>,
   <<[label |-> "o1", key |-> "o1"], [label |-> "o3", key |-> "o3"]>>,
   <<[label |-> "alias-a", key |-> "o1"], [label |-> "alias-b", key |-> "o1"]>>,
   <<[label |-> "o1", key |-> "o1"], [label |-> "alias-b", key |-> "o1"]>>,
   <<[label |-> "wrong-label", key |-> "o1"]>>}

Signers == {<< >>, <<"o1">>, <<"o2">>, <<"o1", "o2">>}

Edits == {"none", "step_name", "threshold", "pubkeys", "command", "mrule", "prule",
          "keys_add", "readme", "expires", "expires_minus", "add_step", "cmd_requote", "cmd_respace", "cmd_empty_arg", "match_in_empty"}

Shapes == {"asis", "empty", "flipped", "relabel", "dup", "dupbad", "dupsplit_bad", "dupsplit_foreign", "dupsplit_relabel"}

OtherOwner(k) == IF k = "o1" THEN "o2" ELSE "o1"

SigList(signers, shape) ==
  LET good == [i \in 1..Len(signers) |-> GoodSig(signers[i])] IN
  CASE shape = "asis"    -> good
    [] shape = "empty"   -> << >>
    [] shape = "flipped" -> IF good = << >> THEN good ELSE <<BadSig(signers[1])>> \o Tail(good)
    [] shape = "relabel" -> IF good = << >> THEN good
                            ELSE <<Relabel(OtherOwner(signers[1]), signers[1])>> \o Tail(good)
    [] shape = "dup"     -> IF good = << >> THEN good ELSE <<good[1]>> \o good
    \* the same valid signature twice, NOT adjacent: separated by a signature that does not count
    [] shape = "dupsplit_bad" -> IF good = << >> THEN good
                                 ELSE <<good[1], BadSig(OtherOwner(signers[1])), good[1]>> \o Tail(good)
    [] shape = "dupsplit_foreign" -> IF good = << >> THEN good
                                 ELSE <<good[1], GoodSig("o3"), good[1]>> \o Tail(good)
    [] shape = "dupsplit_relabel" -> IF good = << >> THEN good
                                 ELSE <<good[1], Relabel(OtherOwner(signers[1]), "o3"), good[1]>> \o Tail(good)
    [] shape = "dupbad"  -> IF good = << >> THEN good ELSE <<BadSig(signers[1]), BadSig(signers[1])>> \o Tail(good)

Layout(sigs, edit) ==
  [LayoutD(sigs, 1000, <<"k1", "k3">>,
           <<StepD("s1", <<"k1">>, 1, << >>, <<Simple("CREATE", PA)>>),
             StepD("s2", <<"k3">>, 1, <<MatchR(PA, "P", "s1")>>, <<Simple("ALLOW", <<"*">>)>>)>>,
           << >>) EXCEPT !.edit = edit]

Links == <<Entry(<< >>, "s1", "k1", LinkD("s1", <<GoodSig("k1")>>, {}, ProdA)),
           Entry(<< >>, "s2", "k3", LinkD("s2", <<GoodSig("k3")>>, ProdA, ProdA))>>

\* "expiry" is content: a layout whose expiry sits at a calendar boundary (named offsets of the concretisation:
\* 1 Jan 2100, 29 Dec 2098, 29 Feb 2096, 31 Dec 2099 23:59:59) edited by one second, one day or one calendar year
CalendarExps == {2010000000, 2011000000, 2012000000, 2013000000}
CalendarEdits == {"none", "expires", "expires_minus", "expires_year", "expires_year_back", "expires_day", "expires_day_back"}
CalendarInit ==
  \E e \in CalendarExps, ed \in CalendarEdits :
     scn = Build([Layout(<<GoodSig("o1")>>, ed) EXCEPT !.expires = e], Own("o1"), Links, {})

LatticeInit ==
  \E ck \in CKeySets, sg \in Signers, ed \in Edits, sh \in Shapes :
       scn = Build(Layout(SigList(sg, sh), ed), ck, Links, {})

MCInit == (LatticeInit \/ CalendarInit) /\ VInitRest

MCSpec == MCInit /\ [][VNext]_vars
Emit == EmitAs("C01")
=============================================================================
