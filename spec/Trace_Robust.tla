---------------------------- MODULE Trace_Robust ----------------------------
(* Trace validation for Robust.tla: the harness logs, per scenario,         *)
(*   {"ev":"doc","kind":..}  then  {"ev":"call","entry":..,"res":..}        *)
(* for every entry point the document was offered to.  The specification's  *)
(* Offer action only produces "value" or "error", so a logged panic, abort  *)
(* or timeout has no matching step and the trace is rejected; an entry      *)
(* point that was not exercised leaves Finish disabled.                     *)
EXTENDS Robust, Json, IOUtils

Rec == ndJsonDeserialize(IOEnv.TRACE)
VARIABLE l
tvars == <<bvars, l>>

TInit == l = 1 /\ TLCSet(1, 0) /\ kind = "linkfile" /\ doc = << >> /\ pc = "done" /\ calls = {}

TDoc ==
  /\ l <= Len(Rec) /\ Rec[l].ev = "doc" /\ pc = "done"
  /\ kind' = Rec[l].kind /\ doc' = << >> /\ pc' = "offer" /\ calls' = {} /\ l' = l + 1

TCall ==
  /\ l <= Len(Rec) /\ Rec[l].ev = "call"
  /\ Offer(Rec[l].entry)
  /\ [entry |-> Rec[l].entry, res |-> Rec[l].res] \in calls'
  /\ l' = l + 1

TFinish == (IF l > Len(Rec) THEN TRUE ELSE Rec[l].ev = "doc") /\ Finish /\ UNCHANGED l

TSpec == TInit /\ [][TDoc \/ TCall \/ TFinish]_tvars
Track == IF pc = "done" /\ l > TLCGet(1) THEN TLCSet(1, l) ELSE TRUE
Accepted ==
  IF TLCGet(1) = Len(Rec) + 1 THEN TRUE
  ELSE PrintT(<<"REJECTED_AT", TLCGet(1)>>) /\ FALSE
=============================================================================
