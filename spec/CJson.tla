------------------------------- MODULE CJson -------------------------------
(* Canonical JSON and signed bytes over CHARACTER CLASSES.                  *)
(*                                                                          *)
(* A string is a sequence of classes:                                       *)
(*   Q  the double quote          B  the backslash        N  line feed      *)
(*   E  BS, FF, CR, TAB (controls with a short JSON escape)                 *)
(*   C  the other C0 controls     D  DEL (0x7f)                             *)
(*   n  the letter n              u  the letter u                           *)
(*   A  other ASCII               U  BMP non-ASCII        S  supplementary  *)
(* Output text is a sequence of ATOMS: "\\" (one backslash), "\"" (one      *)
(* quote), "LF" (a raw line feed), "e" (the letter of a short escape: b f r *)
(* t), "x" (the six-character tail u00XX of a numeric escape, without its   *)
(* backslash), "X2" (a surrogate pair escape tail), and the raw classes.    *)
(*                                                                          *)
(*   Olpc(s)      reference signed bytes of in-toto (OLPC canonical JSON):  *)
(*                only backslash and quote escaped, everything else raw     *)
(*   Serde(s)     the general-purpose JSON string writer                    *)
(*   ReplN(t)     left-to-right textual replacement of backslash+n by LF    *)
(*   ReplN(Serde(s)) is deviation D_C11_SERDE_THEN_REPLACE (the code before *)
(*   the fix).                                                              *)
(*   Spellings(c) every JSON-valid way to write one character (C10 does not *)
(*                prescribe the spelling)                                   *)
EXTENDS Naturals, Sequences, FiniteSets, TLC

Classes == {"Q", "B", "N", "E", "C", "D", "n", "u", "A", "U", "S"}

BS == "\\"

OlpcChar(c) ==
  CASE c = "Q" -> <<BS, "\"">>
    [] c = "B" -> <<BS, BS>>
    [] c = "N" -> <<"LF">>
    [] OTHER   -> <<c>>

SerdeChar(c) ==
  CASE c = "Q" -> <<BS, "\"">>
    [] c = "B" -> <<BS, BS>>
    [] c = "N" -> <<BS, "n">>
    [] c = "E" -> <<BS, "e">>
    [] c = "C" -> <<BS, "x">>
    [] OTHER   -> <<c>>

RECURSIVE Flat(_, _)
Flat(F(_), s) == IF s = << >> THEN << >> ELSE F(Head(s)) \o Flat(F, Tail(s))

Olpc(s)  == Flat(OlpcChar, s)
Serde(s) == Flat(SerdeChar, s)

RECURSIVE ReplN(_)
ReplN(t) ==
  IF t = << >> THEN << >>
  ELSE IF Len(t) >= 2 /\ t[1] = BS /\ t[2] = "n" THEN <<"LF">> \o ReplN(SubSeq(t, 3, Len(t)))
  ELSE <<t[1]>> \o ReplN(Tail(t))

CodeAsWas(s) == ReplN(Serde(s))

\* the strings on which the old signing path differs from the reference
Witness(s) ==
  \E i \in 1..Len(s) : s[i] \in {"E", "C"} \/ (s[i] = "B" /\ i < Len(s) /\ s[i + 1] = "n")

\* every JSON-valid spelling of one character, as atom sequences
Spellings(c) ==
  CASE c = "Q" -> {<<BS, "\"">>, <<BS, "x">>}
    [] c = "B" -> {<<BS, BS>>, <<BS, "x">>}
    [] c = "N" -> {<<BS, "n">>, <<BS, "x">>}
    [] c = "E" -> {<<BS, "e">>, <<BS, "x">>}
    [] c = "C" -> {<<BS, "x">>}
    [] c = "S" -> {<<"S">>, <<BS, "X2">>}
    [] c = "A" -> {<<c>>, <<BS, "x">>, <<BS, "/">>}
    [] OTHER   -> {<<c>>, <<BS, "x">>}

\* is atom sequence t a JSON-valid spelling of string s ?
RECURSIVE Spells(_, _)
Spells(t, s) ==
  IF s = << >> THEN t = << >>
  ELSE \E sp \in Spellings(Head(s)) :
         /\ Len(t) >= Len(sp) /\ SubSeq(t, 1, Len(sp)) = sp
         /\ Spells(SubSeq(t, Len(sp) + 1, Len(t)), Tail(s))

StrsUpTo(k) == UNION {[1..m -> Classes] : m \in 0..k}

-----------------------------------------------------------------------------
(* Member order.  Canonical JSON writes the members of an object sorted by  *)
(* name in CODE POINT order (= UTF-8 byte order; python's sorted(), Go's    *)
(* sort.Strings).  Over the order classes                                   *)
(*    A (ASCII) < D (DEL) < U (BMP below the surrogates) < H (BMP above the  *)
(*    surrogates, U+E000..U+FFFF) < S (supplementary planes)                *)
(* the order by UTF-16 code unit (what JavaScript and RFC 8785 use) differs *)
(* exactly where an H meets an S.                                           *)
OrdClasses == <<"A", "D", "U", "H", "S">>
Rank(c) == CHOOSE i \in 1..Len(OrdClasses) : OrdClasses[i] = c
Rank16(c) == CASE c = "S" -> 4 [] c = "H" -> 5 [] OTHER -> Rank(c)

RECURSIVE LessBy(_, _, _)
LessBy(R(_), x, y) ==
  IF x = << >> THEN y # << >>
  ELSE IF y = << >> THEN FALSE
  ELSE IF R(Head(x)) # R(Head(y)) THEN R(Head(x)) < R(Head(y))
  ELSE LessBy(R, Tail(x), Tail(y))

CodePointLess(x, y) == LessBy(Rank, x, y)
Utf16Less(x, y) == LessBy(Rank16, x, y)
NamesUpTo(k) == UNION {[1..m -> {"A", "D", "U", "H", "S"}] : m \in 1..k}

-----------------------------------------------------------------------------
(* Number classes and what canonicalisation must do with them (C10).        *)
NumClasses == {"i64min", "neg", "zero", "pos", "i64max", "i64max+1", "u64max",
               "u64max+1", "i64min-1", "frac", "exp", "one.zero", "negzero", "bigexp"}
\* "exact"  : must be rendered as exactly that integer
\* "reject" : must be rejected
\* "either" : integer-valued but not integer-spelled, or outside 64 bits: both allowed,
\*            a rendering that is not the exact integer is not
NumRule(c) ==
  CASE c \in {"i64min", "neg", "zero", "pos", "i64max", "i64max+1", "u64max"} -> "exact"
    [] c \in {"frac"} -> "reject"
    [] OTHER -> "either"
=============================================================================
