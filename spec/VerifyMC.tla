------------------------------ MODULE VerifyMC ------------------------------
(* Shared scaffolding of the bounded instances of Verify.tla: constructors  *)
(* for abstract documents, scenario assembly, JSON emission of one scenario *)
(* line per terminal state.                                                 *)
EXTENDS Verify, Json

GoodSig(k) == [kid |-> k, by |-> k, ok |-> TRUE]
BadSig(k)  == [kid |-> k, by |-> k, ok |-> FALSE]
Relabel(claimed, signer) == [kid |-> claimed, by |-> signer, ok |-> TRUE]

Art(p, d) == [p |-> p, d |-> d]
PA == <<"a">>
PB == <<"b">>

LinkD(name, sigs, mats, prods) ==
  [typ |-> "link", sigs |-> sigs, edit |-> "none", name |-> name,
   mats |-> mats, prods |-> prods, cmd |-> "c." \o name, byp |-> "b." \o name]

StepD(name, pubkeys, thr, em, ep) ==
  [name |-> name, pubkeys |-> pubkeys, thr |-> thr, em |-> em, ep |-> ep]

LayoutD(sigs, expires, keys, steps, inspect) ==
  [typ |-> "layout", sigs |-> sigs, edit |-> "none", expires |-> expires, fmt |-> "Z",
   keys |-> keys, steps |-> steps, inspect |-> inspect]

Garbage == [typ |-> "garbage"]

Simple(k, pat) == [k |-> k, pat |-> pat, src |-> << >>, dst |-> << >>, with |-> "P", from |-> ""]
MatchR(pat, with, from) == [k |-> "MATCH", pat |-> pat, src |-> << >>, dst |-> << >>, with |-> with, from |-> from]

Entry(dir, step, fkey, doc) == [dir |-> dir, step |-> step, fkey |-> fkey, doc |-> doc]

\* assemble a scenario from the top layout and a sequence of file entries
Build(layout, ckeys, entries, cwd0) ==
  [now |-> 0,
   ckeys |-> ckeys,
   docs |-> <<layout>> \o [i \in 1..Len(entries) |-> entries[i].doc],
   dirs |-> SetToSeq(
      {[path |-> d,
        files |-> SetToSeq({[step |-> entries[i].step, fkey |-> entries[i].fkey, doc |-> i + 1] :
                               i \in {j \in 1..Len(entries) : entries[j].dir = d}})] :
         d \in {entries[i].dir : i \in 1..Len(entries)}}),
   cwd |-> cwd0]

Own(k) == << [label |-> k, key |-> k] >>

-----------------------------------------------------------------------------
RuleJ(r) == [k |-> r.k, pat |-> Join(r.pat), src |-> Join(r.src), dst |-> Join(r.dst),
             with |-> r.with, from |-> r.from]
RulesJ(rs) == [i \in 1..Len(rs) |-> RuleJ(rs[i])]
ArtJ(arts) == SetToSeq({[p |-> Join(a.p), d |-> a.d] : a \in arts})
StepJ(s) == [name |-> s.name, pubkeys |-> s.pubkeys, thr |-> s.thr, em |-> RulesJ(s.em), ep |-> RulesJ(s.ep)]
CmdJ(c) == [kind |-> c.kind, code |-> c.code, effect |-> c.effect, path |-> Join(c.path), digest |-> c.digest]
InspJ(i) == [name |-> i.name, cmd |-> CmdJ(i.cmd), em |-> RulesJ(i.em), ep |-> RulesJ(i.ep)]
DocJ(d) ==
  CASE d.typ = "link" ->
         [typ |-> "link", sigs |-> d.sigs, edit |-> d.edit, name |-> d.name,
          mats |-> ArtJ(d.mats), prods |-> ArtJ(d.prods), cmd |-> d.cmd, byp |-> d.byp]
    [] d.typ = "layout" ->
         [typ |-> "layout", sigs |-> d.sigs, edit |-> d.edit, expires |-> d.expires, fmt |-> d.fmt,
          keys |-> d.keys,
          steps |-> [i \in 1..Len(d.steps) |-> StepJ(d.steps[i])],
          inspect |-> [i \in 1..Len(d.inspect) |-> InspJ(d.inspect[i])]]
    [] OTHER -> [typ |-> "garbage"]
ScnJ ==
  [now |-> scn.now, ckeys |-> scn.ckeys,
   docs |-> [i \in 1..Len(scn.docs) |-> DocJ(scn.docs[i])],
   dirs |-> scn.dirs, cwd |-> ArtJ(scn.cwd)]
SumJ(s) == [mats |-> ArtJ(s.mats), prods |-> ArtJ(s.prods), cmd |-> s.cmd, byp |-> s.byp]

EmitAs(prop) ==
  VTerminal =>
    PrintT(<<"SCN", ToJson(
      [m |-> "VERIFY", prop |-> prop, scn |-> ScnJ, out |-> verdict, stage |-> why.stage,
       allow |-> SetToSeq(Allowed), mustnot |-> SetToSeq(MustNotRun), failing |-> SetToSeq(FailingInspections),
       ran |-> ran, written |-> SetToSeq(written), sum |-> SumJ(summary)])>>)
=============================================================================
