---------------------------- MODULE Trace_Verify ----------------------------
(* Trace validation for Verify.tla.  The hooks in in_toto_verify log        *)
(*   stage(name, dir)          that stage of the frame working in dir passed *)
(*   link_counted(step, key)   a link was counted towards a step threshold   *)
(*   inspect_start/done(name)  an inspection command was started / finished  *)
(* and the harness frames every run with reset(scn) and result(out).        *)
(*                                                                          *)
(* Two levels are checked.  Requirement level (always): a counted link is   *)
(* signed by a key authorised for that step of that frame's layout (C02,    *)
(* C15), an inspection only starts when everything C08 lists holds, the     *)
(* verdict is allowed.  Algorithm level (while `sync`): every stage event   *)
(* is the corresponding enabled action of Verify.tla.  When the             *)
(* implementation's stage sequence stops matching the algorithm the run is  *)
(* marked desynchronised (reported as drift, not as a violation) and only   *)
(* the requirement level continues.                                         *)
EXTENDS Verify, Json, IOUtils

Rec == ndJsonDeserialize(IOEnv.TRACE)

VARIABLES l, sync, curdir, run
tvars == <<vars, l, sync, curdir, run>>

ArtSet(s) == {[p |-> a.p, d |-> a.d] : a \in SR(s)}
DocT(d) ==
  IF d.typ = "link" THEN [d EXCEPT !.mats = ArtSet(@), !.prods = ArtSet(@)]
  ELSE d
ScnT(j) == [now |-> j.now, ckeys |-> j.ckeys,
            docs |-> [i \in DOMAIN j.docs |-> DocT(j.docs[i])],
            dirs |-> j.dirs, cwd |-> ArtSet(j.cwd)]

EmptyScn == [now |-> 0, ckeys |-> << >>, docs |-> << >>, dirs |-> << >>, cwd |-> {}]

TInit ==
  /\ l = 1 /\ TLCSet(1, 0) /\ TLCSet(3, {}) /\ TLCSet(4, {}) /\ sync = TRUE /\ curdir = << >> /\ run = 0
  /\ scn = EmptyScn /\ stack = << >> /\ verdict = "idle"
  /\ why = [stage |-> "", depth |-> 0]
  /\ ran = << >> /\ written = {} /\ cwd = {} /\ summary = EmptyLink /\ warns = {}

IsEvent(e) == l <= Len(Rec) /\ Rec[l].ev = e /\ l' = l + 1

TReset ==
  /\ IsEvent("reset") /\ verdict = "idle"
  /\ scn' = ScnT(Rec[l].scn)
  /\ stack' = << NewFrame(1, Rec[l].scn.ckeys, << >>, "") >>
  /\ verdict' = "run" /\ why' = [stage |-> "", depth |-> 0]
  /\ ran' = << >> /\ written' = {} /\ cwd' = ArtSet(Rec[l].scn.cwd) /\ summary' = EmptyLink /\ warns' = {}
  /\ sync' = TRUE /\ curdir' = << >> /\ run' = Rec[l].run

\* the layout document a frame working in directory D verifies
LayOfDir(D) ==
  IF D = << >> THEN 1
  ELSE LET F == {f \in DirFiles(SubSeq(D, 1, Len(D) - 1)) :
                    f.step \o "." \o f.fkey = D[Len(D)] /\ Doc(f.doc).typ = "layout"}
       IN IF F = {} THEN 0 ELSE (CHOOSE f \in F : TRUE).doc

StageAction(name) ==
  CASE name = "layout_sig"    -> LayoutSig
    [] name = "expiry"        -> Expiry
    [] name = "load_links"    -> LoadLinks
    [] name = "link_sigs"     -> LinkSigs
    [] name = "sublayouts"    -> SubDone
    [] name = "agreement"     -> Agreement
    [] name = "reduce"        -> Reduce
    [] name = "step_rules"    -> StepRules
    [] name = "inspections"   -> InspectionsDone
    [] name = "inspect_rules" -> InspectRules
    [] OTHER -> FALSE

\* algorithm level: the stage event is the enabled, succeeding action of the frame in that dir
TStageSync ==
  /\ IsEvent("stage") /\ sync /\ verdict = "run"
  /\ Top.dir = Rec[l].dir
  /\ StageAction(Rec[l].name) /\ verdict' = "run"
  /\ curdir' = Rec[l].dir
  /\ UNCHANGED <<sync, run>>

\* unlogged algorithm steps
TSilent ==
  /\ sync /\ verdict = "run" /\ l <= Len(Rec)
  /\ \/ EnterSub
     \/ Finish
     \/ CommandAlign
     \/ (Rec[l].ev = "result" /\ VNext /\ verdict' = "err")
  /\ UNCHANGED <<l, sync, curdir, run>>

\* requirement level for stages, desynchronised: only follow the directory
TStageLoose ==
  /\ IsEvent("stage") /\ ~sync
  /\ LayOfDir(Rec[l].dir) # 0
  /\ curdir' = Rec[l].dir
  /\ UNCHANGED <<vars, sync, run>>

\* requirement level: a counted link
CountedOK(step, key) ==
  LET lay == LayOfDir(curdir) IN
  /\ lay # 0
  /\ \E s \in SR(Doc(lay).steps) :
       /\ s.name = step /\ key \in Authorised(lay, s)
       /\ \E f \in DirFiles(curdir) : f.step = step /\ f.fkey = key /\ DocSignedBy(Doc(f.doc), key)

TCounted ==
  /\ IsEvent("link_counted")
  /\ CountedOK(Rec[l].step, Rec[l].key)
  /\ UNCHANGED <<vars, sync, curdir, run>>

TInspectStart ==
  /\ IsEvent("inspect_start")
  /\ Rec[l].name \notin MustNotRun
  /\ sync => Top.pc = "inspect" /\ Top.ii <= Len(L.inspect) /\ L.inspect[Top.ii].name = Rec[l].name
  /\ UNCHANGED <<vars, sync, curdir, run>>

TInspectDoneSync ==
  /\ IsEvent("inspect_done") /\ sync
  /\ RunInspection /\ verdict' = "run"
  /\ UNCHANGED <<sync, curdir, run>>

TSkip ==
  /\ l <= Len(Rec) /\ l' = l + 1
  /\ \/ Rec[l].ev = "reduced"
     \/ Rec[l].ev = "inspect_done" /\ ~sync
  /\ UNCHANGED <<vars, sync, curdir, run>>

TResult ==
  /\ IsEvent("result")
  /\ Rec[l].out \in Allowed
  /\ sync => VTerminal /\ verdict = Rec[l].out
  /\ IF sync THEN TLCSet(4, TLCGet(4) \cup {run}) ELSE TLCSet(3, TLCGet(3) \cup {run})
  /\ verdict' = "idle" /\ stack' = << >> /\ sync' = TRUE
  /\ UNCHANGED <<scn, why, ran, written, cwd, summary, warns, curdir, run>>

SyncMove == TStageSync \/ TSilent \/ TInspectDoneSync \/ TResult \/ TInspectStart

\* give up algorithm-level matching for the rest of this run - only when no
\* algorithm-level move can consume the next event
TDesync ==
  /\ sync /\ l <= Len(Rec) /\ Rec[l].ev \in {"stage", "result", "inspect_start", "inspect_done"}
  /\ ~ENABLED SyncMove
  /\ sync' = FALSE
  /\ UNCHANGED <<vars, l, curdir, run>>


TNext == TReset \/ TStageSync \/ TSilent \/ TStageLoose \/ TDesync \/ TCounted
         \/ TInspectStart \/ TInspectDoneSync \/ TSkip \/ TResult
TSpec == TInit /\ [][TNext]_tvars

Track == IF l > TLCGet(1) THEN TLCSet(1, l) ELSE TRUE
Accepted ==
  IF TLCGet(1) = Len(Rec) + 1 THEN PrintT(<<"DESYNCED_RUNS", Cardinality(TLCGet(3) \ TLCGet(4))>>)
  ELSE PrintT(<<"REJECTED_AT", TLCGet(1)>>) /\ FALSE
=============================================================================
