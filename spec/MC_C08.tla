------------------------------ MODULE MC_C08 ------------------------------
(* Bounded instance of Verify.tla for C08: one failing cause per stage (or  *)
(* none) x inspection command behaviour (exit 0/1/2/255, killed, not found; *)
(* creating, modifying, deleting a file) x inspection rules that accept or  *)
(* reject the effect; a second inspection; a sub-layout with an inspection  *)
(* of its own.                                                              *)
EXTENDS VerifyMC

PG == <<"g">>
PNew == <<"n", "e", "w">>
Cwd0 == {Art(PG, "h1")}
ProdA == {Art(PA, "h1")}

Cmd(kind, code, effect) ==
  [kind |-> kind, code |-> code, effect |-> effect,
   path |-> IF effect = "create" THEN PNew ELSE IF effect = "none" THEN << >> ELSE PG,
   digest |-> "h2"]
CmdKinds == {<<"exit", 0>>, <<"exit", 1>>, <<"exit", 2>>, <<"exit", 255>>, <<"signal", 0>>, <<"notfound", 0>>}
Effects == {"none", "create", "modify", "delete"}

Insp(name, namec, cmd, strict) ==
  [name |-> name, namec |-> namec, cmd |-> cmd,
   em |-> <<Simple("ALLOW", <<"*">>)>>,
   ep |-> IF strict THEN <<Simple("REQUIRE", PG), Simple("DISALLOW", PNew), Simple("ALLOW", <<"*">>)>>
          ELSE <<Simple("ALLOW", <<"*">>)>>]
I1(cmd, strict) == Insp("i1", <<"i", "1">>, cmd, strict)
I2(cmd) == Insp("i2", <<"i", "2">>, cmd, FALSE)
\* between two inspections the verifier itself writes the first one's link file into the working directory:
\* it is a MATERIAL of the second inspection and subject to its rules like any other file
I1Link == <<"i", "1", ".", "l", "i", "n", "k">>
I2m(cmd, how) ==
  [I2(cmd) EXCEPT !.em = CASE how = "disallow_link" -> <<Simple("DISALLOW", I1Link), Simple("ALLOW", <<"*">>)>>
                           [] how = "require_link"  -> <<Simple("REQUIRE", I1Link), Simple("ALLOW", <<"*">>)>>
                           [] how = "only_g"        -> <<Simple("ALLOW", PG), Simple("ALLOW", <<"S", ".", "*">>), Simple("DISALLOW", <<"*">>)>>
                           [] OTHER                 -> <<Simple("ALLOW", <<"*">>)>>,
                    !.ep = CASE how = "create_link" -> <<Simple("CREATE", I1Link), Simple("ALLOW", <<"*">>)>>
                           [] OTHER                 -> <<Simple("ALLOW", <<"*">>)>>]
J1 == Insp("j1", <<"j", "1">>, Cmd("exit", 0, "none"), FALSE)

\* "rule_match_insp": the failing step also has a MATCH rule that names an INSPECTION (no link for that
\* name exists when the step rules are applied: the rule consumes nothing and the step still fails)
\* "surplus_*": the step has a valid plain link by k2 AND a sub-layout by k1 that fails (expired / its own
\* inspection exits non-zero / its inner link is missing): the failing evidence is not needed for the threshold
Causes == {"none", "badsig", "expired", "missing", "unauth", "badlinksig", "thr", "disagree",
           "rule", "rule_match_insp", "subfail", "subok", "subok_rule",
           "surplus_subexpired", "surplus_subinspfail", "surplus_submissing",
           \* the failing step is not the last one: a second step, after it, passes all its checks
           "rule_first_of_two",
           \* two steps, the SECOND one's link is missing (its functionary is the first step's, or another one)
           "missing_second_same", "missing_second_other",
           \* the two links of a threshold-2 step disagree AND were recorded with different hash algorithms
           "disagree_alg",
           \* threshold 2: the second functionary's file carries an invalid entry of his and a valid one of the first
           \* functionary's - one functionary's signature twice is still one functionary
           "badplusother"}

Sub(exp) ==
  LayoutD(<<GoodSig("k1")>>, exp, <<"k3">>,
          <<StepD("in1", <<"k3">>, 1, << >>, <<Simple("CREATE", PA)>>)>>, <<J1>>)
SubInspFail ==
  LayoutD(<<GoodSig("k1")>>, 1000, <<"k3">>,
          <<StepD("in1", <<"k3">>, 1, << >>, <<Simple("CREATE", PA)>>)>>,
          <<Insp("j1", <<"j", "1">>, Cmd("exit", 3, "none"), FALSE)>>)
Surplus == {"surplus_subexpired", "surplus_subinspfail", "surplus_submissing"}

Layout(cause, insps) ==
  LayoutD(IF cause = "badsig" THEN <<BadSig("o1")>> ELSE <<GoodSig("o1")>>,
          IF cause = "expired" THEN -10 ELSE 1000,
          <<"k1", "k2", "k3">>,
          <<StepD("s1",
                  IF cause \in {"thr", "disagree", "disagree_alg", "badplusother"} \cup Surplus THEN <<"k1", "k2">> ELSE <<"k1">>,
                  IF cause \in {"thr", "disagree", "disagree_alg", "badplusother"} THEN 2 ELSE 1,
                  << >>,
                  CASE cause \in {"rule", "subok_rule", "rule_first_of_two"} -> <<Simple("DISALLOW", <<"*">>)>>
                    [] cause = "rule_match_insp" -> <<MatchR(<<"*">>, "P", "i1"), MatchR(PA, "M", "i1"), Simple("DISALLOW", <<"*">>)>>
                    [] OTHER -> <<Simple("ALLOW", <<"*">>)>>)>>
          \o (IF cause \in {"rule_first_of_two", "missing_second_other"}
              THEN <<StepD("s2", <<"k3">>, 1, << >>, <<Simple("ALLOW", <<"*">>)>>)>>
              ELSE IF cause = "missing_second_same"
              THEN <<StepD("s2", <<"k1">>, 1, << >>, <<Simple("ALLOW", <<"*">>)>>)>> ELSE << >>),
          insps)

Files(cause) ==
  CASE cause = "missing"    -> << >>
    [] cause = "unauth"     -> <<Entry(<< >>, "s1", "k2", LinkD("s1", <<GoodSig("k2")>>, {}, ProdA))>>
    [] cause = "badlinksig" -> <<Entry(<< >>, "s1", "k1", LinkD("s1", <<BadSig("k1")>>, {}, ProdA))>>
    [] cause = "disagree"   -> <<Entry(<< >>, "s1", "k1", LinkD("s1", <<GoodSig("k1")>>, {}, ProdA)),
                                 Entry(<< >>, "s1", "k2", LinkD("s1", <<GoodSig("k2")>>, {}, {Art(PA, "h2")}))>>
    [] cause = "badplusother" -> <<Entry(<< >>, "s1", "k1", LinkD("s1", <<GoodSig("k1")>>, {}, ProdA)),
                                   Entry(<< >>, "s1", "k2", LinkD("s1", <<BadSig("k2"), GoodSig("k1")>>, {}, ProdA))>>
    [] cause = "disagree_alg" -> <<Entry(<< >>, "s1", "k1", LinkD("s1", <<GoodSig("k1")>>, {}, ProdA)),
                                   Entry(<< >>, "s1", "k2", LinkD("s1", <<GoodSig("k2")>>, {}, {Art(PA, "s512:h2")}))>>
    [] cause = "subfail"    -> <<Entry(<< >>, "s1", "k1", Sub(-10)),
                                 Entry(<<"s1.k1">>, "in1", "k3", LinkD("in1", <<GoodSig("k3")>>, {}, ProdA))>>
    [] cause \in Surplus ->
         <<Entry(<< >>, "s1", "k2", LinkD("s1", <<GoodSig("k2")>>, {}, ProdA)),
           Entry(<< >>, "s1", "k1", CASE cause = "surplus_subexpired" -> Sub(-10)
                                      [] cause = "surplus_subinspfail" -> SubInspFail
                                      [] OTHER -> Sub(1000))>>
         \o (IF cause = "surplus_submissing" THEN << >>
             ELSE <<Entry(<<"s1.k1">>, "in1", "k3", LinkD("in1", <<GoodSig("k3")>>, {}, ProdA))>>)
    [] cause \in {"subok", "subok_rule"} ->
                               <<Entry(<< >>, "s1", "k1", Sub(1000)),
                                 Entry(<<"s1.k1">>, "in1", "k3", LinkD("in1", <<GoodSig("k3")>>, {}, ProdA))>>
    [] cause = "rule_first_of_two" ->
                               <<Entry(<< >>, "s1", "k1", LinkD("s1", <<GoodSig("k1")>>, {}, ProdA)),
                                 Entry(<< >>, "s2", "k3", LinkD("s2", <<GoodSig("k3")>>, {}, ProdA))>>
    [] OTHER                -> <<Entry(<< >>, "s1", "k1", LinkD("s1", <<GoodSig("k1")>>, {}, ProdA))>>

MCInit ==
  /\ \/ \E cause \in Causes, ck \in CmdKinds, eff \in Effects, strict \in BOOLEAN :
          scn = Build(Layout(cause, <<I1(Cmd(ck[1], ck[2], eff), strict)>>), Own("o1"), Files(cause), Cwd0)
     \/ \E c1 \in {<<"exit", 0>>, <<"exit", 1>>}, e1 \in Effects, c2 \in CmdKinds, strict \in BOOLEAN :
          scn = Build(Layout("none", <<I1(Cmd(c1[1], c1[2], e1), strict), I2(Cmd(c2[1], c2[2], "none"))>>),
                      Own("o1"), Files("none"), Cwd0)
     \* an inspection NAMED LIKE THE STEP: its rules are about what the inspection recorded, not about the step's link
     \/ \E e1 \in Effects, lenient \in BOOLEAN :
          scn = Build(Layout("none", <<[Insp("s1", <<"s", "1">>, Cmd("exit", 0, e1), FALSE) EXCEPT
                                          !.ep = IF lenient THEN <<Simple("ALLOW", <<"*">>)>>
                                                 ELSE <<Simple("DISALLOW", PNew), Simple("REQUIRE", PG), Simple("ALLOW", <<"*">>)>>]>>),
                      Own("o1"), Files("none"), Cwd0)
     \/ \E e1 \in Effects, how \in {"allow", "disallow_link", "require_link", "only_g", "create_link"} :
          scn = Build(Layout("none", <<I1(Cmd("exit", 0, e1), FALSE), I2m(Cmd("exit", 0, "none"), how)>>),
                      Own("o1"), Files("none"), Cwd0)
  /\ VInitRest

MCSpec == MCInit /\ [][VNext]_vars
Emit == EmitAs("C08")
=============================================================================
