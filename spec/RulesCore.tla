----------------------------- MODULE RulesCore -----------------------------
(* Artifact-rule processing of the in-toto specification (section 5.2.3,    *)
(* VERIFY_EXPECTED_ARTIFACTS; identical to the reference implementation's   *)
(* verify_item_rules / verify_match_rule), transcribed over abstract        *)
(* artifacts.                                                               *)
(*                                                                          *)
(* An artifact set is a set of records [p |-> path, d |-> digest] with      *)
(* pairwise distinct paths; a path is a sequence of one-character strings.  *)
(* A link is [mats, prods]; `links` is a function  name -> link  (a step    *)
(* that has no link is simply not in its domain).                           *)
(* A rule is [k, pat, src, dst, with, from]; src/dst = << >> means "no IN". *)
(*                                                                          *)
(* This module holds the operators; Rules.tla adds the state machine with   *)
(* one Apply step per rule (MC_C03, Trace_Rules); Verify.tla uses the       *)
(* functional form ItemOk(item, links, dev).                                *)
(* `dev` is a set of named deviations of the implementation (empty = the    *)
(* intended algorithm).                                                     *)
EXTENDS Glob, FiniteSets, TLC

Kinds == {"CREATE", "DELETE", "MODIFY", "ALLOW", "REQUIRE", "DISALLOW", "MATCH"}

DevIds == {"D_C03_MATCH_NO_PATTERN", "D_C03_MATCH_PREFIX_FALLTHROUGH",
           "D_C03_DISALLOW_BAD_PATTERN_PASSES"}

Paths(arts) == {a.p : a \in arts}
Dig(arts, p) == (CHOOSE a \in arts : a.p = p).d

Created(l)  == Paths(l.prods) \ Paths(l.mats)
Deleted(l)  == Paths(l.mats) \ Paths(l.prods)
Modified(l) == {p \in Paths(l.mats) \cap Paths(l.prods) :
                   Dig(l.mats, p) # Dig(l.prods, p)}

\* fnmatch.filter; an uninterpretable pattern selects nothing
Filtered(q, pat) == IF BadPattern(pat) THEN {} ELSE {p \in q : GlobM(pat, p)}

Slash(prefix) == IF prefix = << >> THEN << >> ELSE prefix \o <<"/">>

\* the artifacts a MATCH rule consumes from queue q
MatchConsumed(rule, srcArts, q, links, dev) ==
  IF rule.from \notin DOMAIN links THEN {}
  ELSE IF BadPattern(rule.pat) THEN {}
  ELSE
    LET dl      == links[rule.from]
        dstArts == IF rule.with = "M" THEN dl.mats ELSE dl.prods
        sp      == Slash(rule.src)
        dp      == Slash(rule.dst)
        Base(p) == IF IsPrefixSeq(sp, p) THEN DropN(p, Len(sp)) ELSE p
    IN {p \in q :
          /\ \/ IsPrefixSeq(sp, p)
             \/ "D_C03_MATCH_PREFIX_FALLTHROUGH" \in dev
          /\ \/ GlobM(rule.pat, Base(p))
             \/ "D_C03_MATCH_NO_PATTERN" \in dev
          /\ (dp \o Base(p)) \in Paths(dstArts)
          /\ Dig(dstArts, dp \o Base(p)) = Dig(srcArts, p)}

\* result of one rule on queue q: [fail, consumed]
ApplyRule(rule, l, srcArts, q, links, dev) ==
  LET f == Filtered(q, rule.pat) IN
  CASE rule.k = "CREATE"   -> [fail |-> FALSE, consumed |-> f \cap Created(l)]
    [] rule.k = "DELETE"   -> [fail |-> FALSE, consumed |-> f \cap Deleted(l)]
    [] rule.k = "MODIFY"   -> [fail |-> FALSE, consumed |-> f \cap Modified(l)]
    [] rule.k = "ALLOW"    -> [fail |-> FALSE, consumed |-> f]
    [] rule.k = "REQUIRE"  -> [fail |-> rule.pat \notin q, consumed |-> {}]
    [] rule.k = "DISALLOW" ->
         [fail |-> \/ f # {}
                   \/ /\ BadPattern(rule.pat)
                      /\ "D_C03_DISALLOW_BAD_PATTERN_PASSES" \notin dev,
          consumed |-> {}]
    [] rule.k = "MATCH"    ->
         [fail |-> FALSE, consumed |-> MatchConsumed(rule, srcArts, q, links, dev)]

\* C03, second sentence: what a rule may consume at all
MayConsume(rule, p) ==
  IF rule.k = "MATCH"
  THEN /\ IsPrefixSeq(Slash(rule.src), p)
       /\ ~BadPattern(rule.pat)
       /\ GlobM(rule.pat, DropN(p, Len(Slash(rule.src))))
  ELSE /\ rule.k \in {"CREATE", "DELETE", "MODIFY", "ALLOW"}
       /\ ~BadPattern(rule.pat)
       /\ GlobM(rule.pat, p)

RECURSIVE RunList(_, _, _, _, _, _, _)
RunList(rules, i, q, l, srcArts, links, dev) ==
  IF i > Len(rules) THEN TRUE
  ELSE LET r == ApplyRule(rules[i], l, srcArts, q, links, dev) IN
       /\ ~r.fail
       /\ RunList(rules, i + 1, q \ r.consumed, l, srcArts, links, dev)

\* functional presentation: does the item pass its rules?
ItemOk(item, links, dev) ==
  /\ item.name \in DOMAIN links
  /\ LET l == links[item.name] IN
       /\ RunList(item.em, 1, Paths(l.mats), l, l.mats, links, dev)
       /\ RunList(item.ep, 1, Paths(l.prods), l, l.prods, links, dev)
=============================================================================
