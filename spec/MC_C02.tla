------------------------------ MODULE MC_C02 ------------------------------
(* Bounded instance of Verify.tla for C02: every assignment of functionary  *)
(* keys to the step under test, every threshold, every population of the    *)
(* link directory for that step; everything else at its happy value.        *)
EXTENDS VerifyMC

CONSTANT Tier

Other(k) == IF k = "k1" THEN "k2" ELSE "k1"

ProdA == {Art(PA, "h1")}
S1Link(sigs) == LinkD("s1", sigs, {}, ProdA)

\* a fully valid sub-layout delegated to by k (its own link lives in s1.<k>/)
SubLayout(k) ==
  LayoutD(<<GoodSig(k)>>, 1000, <<"k3">>,
          <<StepD("in1", <<"k3">>, 1, << >>, <<Simple("CREATE", PA)>>)>>, << >>)

\* "dotsfile" / "truncfile": validly signed by k but filed under eight characters that are no prefix of k's id
\* (eight dots; three characters of the id followed by ".link") - under a prefix none of its signatures carries
FileStates == {"absent", "valid", "other", "flipped", "tampered", "requoted", "respaced", "dotsfile", "truncfile", "misfiled", "multi",
               "badplusother", "sublayout", "garbage"}
StatesFor(k) == IF k = "kx" THEN {"absent", "valid"}
                ELSE IF Tier = "quick"
                     THEN (IF k = "k2" THEN FileStates \ {"garbage", "respaced", "dotsfile", "truncfile"} ELSE FileStates \ {"garbage"})
                     ELSE FileStates

Entries(k, st) ==
  CASE st = "absent"    -> << >>
    [] st = "valid"     -> <<Entry(<< >>, "s1", k, S1Link(<<GoodSig(k)>>))>>
    [] st = "other"     -> <<Entry(<< >>, "s1", k, S1Link(<<Relabel(k, Other(k))>>))>>
    [] st = "flipped"   -> <<Entry(<< >>, "s1", k, S1Link(<<BadSig(k)>>))>>
    [] st = "tampered"  -> <<Entry(<< >>, "s1", k, [S1Link(<<GoodSig(k)>>) EXCEPT !.edit = "product"])>>
    \* altered so that only string quoting tells the signed from the shipped content
    [] st = "requoted"  -> <<Entry(<< >>, "s1", k, [S1Link(<<GoodSig(k)>>) EXCEPT !.edit = "cmd_requote"])>>
    [] st = "dotsfile"  -> <<Entry(<< >>, "s1", k \o ":dots", S1Link(<<GoodSig(k)>>))>>
    [] st = "truncfile" -> <<Entry(<< >>, "s1", k \o ":trunc3", S1Link(<<GoodSig(k)>>))>>
    [] st = "respaced"  -> <<Entry(<< >>, "s1", k, [S1Link(<<GoodSig(k)>>) EXCEPT !.edit = "cmd_respace"])>>
    [] st = "misfiled"  -> <<Entry(<< >>, "s1", k, S1Link(<<GoodSig(Other(k))>>))>>
    [] st = "multi"     -> <<Entry(<< >>, "s1", k, S1Link(<<GoodSig(Other(k)), GoodSig(k)>>))>>
    \* the named key's own signature does not verify, a co-functionary's does
    [] st = "badplusother" -> <<Entry(<< >>, "s1", k, S1Link(<<BadSig(k), GoodSig(Other(k))>>))>>
    [] st = "sublayout" -> <<Entry(<< >>, "s1", k, SubLayout(k)),
                             Entry(<<"s1." \o k>>, "in1", "k3", LinkD("in1", <<GoodSig("k3")>>, {}, ProdA))>>
    [] st = "garbage"   -> <<Entry(<< >>, "s1", k, Garbage)>>

Layout(keys, pubs, thr) ==
  LayoutD(<<GoodSig("o1")>>, 1000, keys,
          <<StepD("s1", pubs, thr, << >>, <<Simple("CREATE", PA)>>),
            StepD("s2", <<"k3">>, 1, <<MatchR(PA, "P", "s1")>>, <<Simple("ALLOW", <<"*">>)>>)>>,
          << >>)

S2Entry == Entry(<< >>, "s2", "k3", LinkD("s2", <<GoodSig("k3")>>, ProdA, ProdA))

KeySets == {<<"k3">>, <<"k1", "k3">>, <<"k2", "k3">>, <<"k1", "k2", "k3">>}
PubSets == {<< >>, <<"k1">>, <<"k2">>, <<"kx">>, <<"k1", "k2">>, <<"k1", "kx">>, <<"k2", "kx">>,
            <<"k1", "k2", "kx">>}

\* the step lists a key the layout's key table does not define although the verifier knows it for another
\* reason: the owner key the layout itself was verified with
OwnerAsFunctionary ==
  \E keys \in KeySets, pubs \in {<<"o1">>, <<"k1", "o1">>}, thr \in {1, 2}, st1 \in {"absent", "valid"} :
     scn = Build(Layout(keys, pubs, thr), Own("o1"),
                 Entries("k1", st1) \o <<Entry(<< >>, "s1", "o1", S1Link(<<GoodSig("o1")>>))>> \o <<S2Entry>>, {})

Lattice ==
  \E keys \in KeySets, pubs \in PubSets, thr \in 0..3,
        st1 \in StatesFor("k1"), st2 \in StatesFor("k2"), stx \in StatesFor("kx") :
       scn = Build(Layout(keys, pubs, thr), Own("o1"),
                   Entries("k1", st1) \o Entries("k2", st2) \o Entries("kx", stx) \o <<S2Entry>>, {})

\* the step under test is neither the first nor the last of the layout, nothing refers to it and its own rules
\* demand nothing: only the evidence requirement itself stands between an empty step and acceptance
MiddleLayout(pubs, thr) ==
  LayoutD(<<GoodSig("o1")>>, 1000, <<"k1", "k2", "k3">>,
          <<StepD("s0", <<"k3">>, 1, << >>, <<Simple("ALLOW", <<"*">>)>>),
            StepD("s1", pubs, thr, <<Simple("ALLOW", <<"*">>)>>, <<Simple("ALLOW", <<"*">>)>>),
            StepD("s2", <<"k3">>, 1, <<Simple("ALLOW", <<"*">>)>>, <<Simple("ALLOW", <<"*">>)>>)>>,
          << >>)
Middle ==
  \E pubs \in {<<"k1">>, <<"k1", "k2">>, <<"kx">>}, thr \in {0, 1},
     st1 \in {"absent", "valid", "flipped", "misfiled", "other", "tampered"}, st2 \in {"absent", "valid"} :
     scn = Build(MiddleLayout(pubs, thr), Own("o1"),
                 <<Entry(<< >>, "s0", "k3", LinkD("s0", <<GoodSig("k3")>>, {}, ProdA))>>
                 \o Entries("k1", st1) \o Entries("k2", st2) \o <<S2Entry>>, {})

MCInit == (Lattice \/ OwnerAsFunctionary \/ Middle) /\ VInitRest

MCSpec == MCInit /\ [][VNext]_vars
Emit == EmitAs("C02")
=============================================================================
