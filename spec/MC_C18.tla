------------------------------ MODULE MC_C18 ------------------------------
(* Bounded instance of Record.tla for C18: every file-system graph over the *)
(* skeleton (files, directories, an empty directory, up to two symbolic     *)
(* links to files / directories / each other / an ancestor), every path     *)
(* argument list and strip-prefix list of the tables below.                 *)
EXTENDS Record, Json, SequencesExt

CONSTANT Tier

L1Targets == {"none", "F", "G", "D", "DF", "L2", "T", "E"}
L2Targets == {"none", "G", "T", "F", "DH"}
Flavours == {"abs", "rel"}

ArgLists == {<< <<"t">> >>, << <<"t", "d">> >>, << <<"t">>, <<"t", "d">> >>, << <<"t">>, <<"t">> >>,
             << <<"t", "f">>, <<"t", "d">> >>, << <<"t", "l1">> >>, << <<"t", "e">>, <<"t", "f">> >>,
             << <<"t", "d">>, <<"t">> >>,
             \* a directory and a single file outside it, in both orders (each path is visited exactly once)
             << <<"t", "d">>, <<"t", "g">> >>, << <<"t", "g">>, <<"t", "d">> >>,
             \* siblings (in the concretisation the name of g begins with the name of f, that of e with that of d)
             << <<"t", "f">>, <<"t", "g">> >>, << <<"t", "d">>, <<"t", "e">>, <<"t", "g">> >>}
StripLists == {{}, {<<"t">>}, {<<"t">>, <<"t", "d">>}, {<<"t", "d">>}, {<<"t", "l1">>, <<"t", "d">>}}

VARIABLES flav,     \* [l1, l2] link flavours (concretisation only)
          cmd       \* "norun": plain recording; otherwise the command of an in_toto_run history
mc18vars == <<rvars, flav, cmd>>

FsSet ==
  [f : BOOLEAN, g : BOOLEAN, d : BOOLEAN, df : BOOLEAN, dh : BOOLEAN, e : BOOLEAN,
   l1 : L1Targets, l2 : L2Targets, l2g : BOOLEAN]

\* no dangling links (outside the quantifier of C18), canonical form of absent sub-trees
WellFormed(x) ==
  /\ (~x.d => ~x.df /\ ~x.dh /\ x.l2 = "none")
  /\ (x.l2g => x.l2 # "none" /\ x.g /\ x.l1 # "L2")        \* the like-named link only where it can collide
  /\ (x.l1 \notin {"none", "L2", "T"} => Present(x, x.l1))
  /\ (x.l1 = "L2" => x.d /\ x.l2 # "none")
  /\ (x.l2 \notin {"none", "T"} => Present(x, x.l2))
  /\ (Tier = "quick" => x.e /\ (x.l1 = "none" \/ x.l2 = "none" \/ x.l1 = "L2" \/ x.l2 = "T"))

RunFs == {x \in FsSet : WellFormed(x) /\ x.l2 = "none" /\ x.l1 \in {"none", "F", "D"} /\ x.e}

MCInit ==
  /\ \/ /\ cmd = "norun"
        /\ fs \in {x \in FsSet : WellFormed(x)}
        /\ args \in ArgLists /\ strips \in StripLists
        /\ \A i \in DOMAIN args : ArgNode(fs, args[i]) # "none"    \* arguments name existing paths
        /\ flav \in [l1 : Flavours, l2 : Flavours]
     \/ /\ cmd \in Cmds
        /\ fs \in RunFs
        /\ (cmd = "delete_f" => fs.l1 # "F")       \* no dangling link after the command
        /\ args = << <<"t">> >> /\ strips \in {{}, {<<"t">>}}
        /\ flav \in [l1 : {"rel"}, l2 : {"abs"}]
  /\ (fs.l1 = "none" => flav.l1 = "abs") /\ (fs.l2 = "none" => flav.l2 = "abs")
  /\ RInitRest

ARecordArg == RecordArg /\ UNCHANGED <<flav, cmd>>
ARecordEnd == RecordEnd /\ UNCHANGED <<flav, cmd>>
MCSpec == MCInit /\ [][ARecordArg \/ ARecordEnd]_mc18vars

Emit ==
  RDone =>
    PrintT(<<"SCN", ToJson(
      [m |-> "C18", fs |-> fs, flav |-> flav, cmd |-> cmd,
       after |-> IF cmd = "norun" THEN << >> ELSE SetToSeq(AfterEntries(fs, cmd, args, strips)),
       args |-> [i \in DOMAIN args |-> JoinSlash(args[i])],
       strips |-> SetToSeq({JoinSlash(s) \o "/" : s \in strips}),
       out |-> res,
       entries |-> SetToSeq(Keyed(fs, args, strips)),
       files |-> SetToSeq(ReachableFiles(fs, args)),
       \* one file reachable by two different paths that receive the same key: C18 leaves open
       \* whether that is one entry or an error
       amb |-> \E a, b \in Entries(fs, args, strips) :
                 a.path # b.path /\ a.file = b.file
                 /\ Stripped(a.path, strips) = Stripped(b.path, strips)])>>)
=============================================================================
