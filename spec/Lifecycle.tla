----------------------------- MODULE Lifecycle -----------------------------
(* Life cycle of a signed metadata block (C09, C05):                        *)
(*   Construct (direct constructor or builder, 1..3 signers)                *)
(*   -> Write (compact | pretty) -> Read (the block as read is verified    *)
(*      once per signer: it must verify, and that changes nothing)          *)
(*   -> optional Edit of one field of the signed part                       *)
(*   -> optional mutation of the signatures / of the verifier's key         *)
(*   -> Verify(keys, t)                                                     *)
(* The abstract state is (content version, signature list, verifier keys);  *)
(* the expected verdict is not tabulated but follows from the C04           *)
(* requirement on that state: ok iff t >= 1 and at least t distinct         *)
(* authorised keys have a valid signature over the current content.         *)
(* A key "k*" stands for the material of k declared with another scheme     *)
(* (different intrinsic id, and signatures by k do not verify under it).    *)
EXTENDS Naturals, Sequences, FiniteSets, TLC

Keys == {"k1", "k2", "k3"}
Star(k) == k \o "*"

VARIABLES ctor, signers, fmt, str, field,      \* construction parameters (immutable)
          content, sigs, vkeys, t, pc, ops, res

lvars == <<ctor, signers, fmt, str, field, content, sigs, vkeys, t, pc, ops, res>>
params == <<ctor, signers, fmt, str, field>>

Range(s) == {s[i] : i \in DOMAIN s}

Valid(s, k) == s.kid = k /\ s.by = k /\ s.ok /\ s.over = content

LInitRest ==
  /\ content = "v0" /\ sigs = << >> /\ vkeys = {} /\ t = 0 /\ pc = "construct" /\ ops = << >> /\ res = "run"

\* The direct constructor signs once per listed key (a key listed twice yields two signatures);
\* the builder keeps one signature per key id (a later one replaces an earlier one).
RECURSIVE Distinct(_)
Distinct(s) == IF s = << >> THEN << >>
               ELSE IF \E j \in 2..Len(s) : s[j] = s[1] THEN Distinct(Tail(s))
               ELSE <<s[1]>> \o Distinct(Tail(s))
Construct ==
  /\ pc = "construct"
  /\ LET who == IF ctor = "build" THEN Distinct(signers) ELSE signers IN
     sigs' = [i \in DOMAIN who |-> [kid |-> who[i], by |-> who[i], ok |-> TRUE, over |-> "v0"]]
  /\ ops' = Append(ops, [op |-> ctor, signers |-> signers])
  /\ pc' = "write"
  /\ UNCHANGED <<params, content, vkeys, t, res>>

Write ==
  /\ pc = "write"
  /\ ops' = Append(ops, [op |-> "write", fmt |-> fmt]) /\ pc' = "read"
  /\ UNCHANGED <<params, content, sigs, vkeys, t, res>>

Read ==
  /\ pc = "read"
  /\ ops' = Append(ops, [op |-> "read"]) /\ pc' = "edit"
  /\ UNCHANGED <<params, content, sigs, vkeys, t, res>>

\* change one field of the signed part, keeping the signatures
Edit(f) ==
  /\ pc = "edit"
  /\ content' = "v1" /\ ops' = Append(ops, [op |-> "edit", field |-> f]) /\ pc' = "mutate"
  /\ UNCHANGED <<params, sigs, vkeys, t, res>>

NoEdit == pc = "edit" /\ pc' = "mutate" /\ UNCHANGED <<params, content, sigs, vkeys, t, ops, res>>

FlipBit(i) ==
  /\ pc = "mutate" /\ i \in DOMAIN sigs
  /\ sigs' = [sigs EXCEPT ![i].ok = FALSE]
  /\ ops' = Append(ops, [op |-> "flip", i |-> i]) /\ pc' = "keys"
  /\ UNCHANGED <<params, content, vkeys, t, res>>

Relabel(i, k) ==
  /\ pc = "mutate" /\ i \in DOMAIN sigs /\ k # sigs[i].kid
  /\ sigs' = [sigs EXCEPT ![i].kid = k]
  /\ ops' = Append(ops, [op |-> "relabel", i |-> i, to |-> k]) /\ pc' = "keys"
  /\ UNCHANGED <<params, content, vkeys, t, res>>

DropSig(i) ==
  /\ pc = "mutate" /\ i \in DOMAIN sigs
  /\ sigs' = [j \in 1..(Len(sigs) - 1) |-> IF j < i THEN sigs[j] ELSE sigs[j + 1]]
  /\ ops' = Append(ops, [op |-> "dropsig", i |-> i]) /\ pc' = "keys"
  /\ UNCHANGED <<params, content, vkeys, t, res>>

NoMutation == pc = "mutate" /\ pc' = "keys" /\ UNCHANGED <<params, content, sigs, vkeys, t, ops, res>>

\* the verifier's key set and threshold
KeyChoice(kind) ==
  LET S == Range(signers)
      other == CHOOSE k \in Keys \cup {"kx"} : k \notin S
  IN CASE kind = "signers"   -> [keys |-> S, t |-> Cardinality(S)]
       [] kind = "other"     -> [keys |-> {other}, t |-> 1]
       [] kind = "superset"  -> [keys |-> S \cup {other}, t |-> Cardinality(S)]
       [] kind = "too_many"  -> [keys |-> S \cup {other}, t |-> Cardinality(S) + 1]
       [] kind = "one"       -> [keys |-> {signers[1]}, t |-> 1]
       [] kind = "redeclare" -> [keys |-> (S \ {signers[1]}) \cup {Star(signers[1])}, t |-> Cardinality(S)]
       [] kind = "redeclare_one" -> [keys |-> {Star(signers[1])}, t |-> 1]
       [] kind = "zero"      -> [keys |-> S, t |-> 0]
KeyKinds == {"signers", "other", "superset", "too_many", "one", "redeclare", "redeclare_one", "zero"}

ChooseKeys(kind) ==
  /\ pc = "keys"
  /\ vkeys' = KeyChoice(kind).keys /\ t' = KeyChoice(kind).t
  /\ ops' = Append(ops, [op |-> "verify", keys |-> kind]) /\ pc' = "verify"
  /\ UNCHANGED <<params, content, sigs, res>>

\* relabelling the first signature to the redeclared key's id must not help either
RelabelToStar ==
  /\ pc = "verify" /\ sigs # << >> /\ Star(signers[1]) \in vkeys /\ sigs[1].kid = signers[1]
  /\ \A o \in Range(ops) : o.op # "relabel_star"
  /\ sigs' = [sigs EXCEPT ![1].kid = Star(signers[1])]
  /\ ops' = Append(ops, [op |-> "relabel_star"])
  /\ UNCHANGED <<params, content, vkeys, t, pc, res>>

GoodKeys == {k \in vkeys : \E s \in Range(sigs) : Valid(s, k)}
\* keys whose every signature (by claimed id) is valid: they count whichever copy de-duplication keeps
SureKeys == {k \in GoodKeys : \A s \in Range(sigs) : s.kid = k => Valid(s, k)}
\* C04 leaves duplicates of mixed validity open
AllowedVerdicts ==
  IF sigs = << >> \/ t < 1 \/ Cardinality(GoodKeys) < t THEN {"err"}
  ELSE IF Cardinality(SureKeys) >= t THEN {"ok"}
  ELSE {"ok", "err"}

Verify ==
  /\ pc = "verify"
  /\ res' = IF sigs # << >> /\ t >= 1 /\ Cardinality(GoodKeys) >= t THEN "ok" ELSE "err"
  /\ pc' = "done"
  /\ UNCHANGED <<params, content, sigs, vkeys, t, ops>>

LDone == pc = "done"

\* C09 / C05 as invariants of the life cycle
UntouchedVerifies ==
  (LDone /\ content = "v0" /\ (\A o \in Range(ops) : o.op \notin {"flip", "relabel", "dropsig", "relabel_star"})
         /\ vkeys = Range(signers) /\ t = Cardinality(Range(signers))) => res = "ok"
EditInvalidates == (LDone /\ content = "v1") => res = "err"
NoForeignKey == (LDone /\ vkeys \cap Range(signers) = {}) => res = "err"
=============================================================================
