SPECIFICATION TSpec
CONSTRAINT Track
POSTCONDITION Accepted
CHECK_DEADLOCK FALSE
