------------------------------- MODULE Record -------------------------------
(* Artifact recording (record_artifacts / in_toto_run, src/runlib.rs) over  *)
(* an abstract file-system graph.                                           *)
(*                                                                          *)
(* Skeleton (every position may be absent):                                 *)
(*    t/            directory T                                             *)
(*    t/f  t/g      regular files F, G                                      *)
(*    t/d/          directory D        t/d/f  t/d/h   files DF, DH          *)
(*    t/e/          directory E (empty)                                     *)
(*    t/l1          symbolic link in T        t/d/l2  symbolic link in D    *)
(*                                            (or t/d/g, named like t/g)    *)
(* A link has a target node (a file, a directory, the other link, or        *)
(* nothing = absent) and a flavour (absolute / relative) that only the      *)
(* concretisation sees.                                                     *)
(*                                                                          *)
(* The walk is the one of the code's directory walker: real sub-directories *)
(* are always entered, a link to a directory is followed unless the target  *)
(* is already on the current descent stack (a cycle), links to files (also  *)
(* through another link) yield the file under the link's path.              *)
EXTENDS Naturals, Sequences, FiniteSets, TLC

Files == {"F", "G", "DF", "DH"}
Dirs == {"T", "D", "E"}

\* fs: [f, g, d, df, dh, e : BOOLEAN, l1, l2 : target, l2g : BOOLEAN]   target \in Files \cup Dirs \cup {"L2", "none"}
\* l2g: the link in D is called "g" (like the file t/g) instead of "l2", so that stripping can make a LINK collide
Present(fs, n) ==
  CASE n = "F" -> fs.f [] n = "G" -> fs.g [] n = "D" -> fs.d [] n = "DF" -> fs.d /\ fs.df
    [] n = "DH" -> fs.d /\ fs.dh [] n = "E" -> fs.e [] n = "T" -> TRUE [] OTHER -> FALSE

\* the node a link finally denotes ("none": absent or dangling)
ResolveL2(fs) == IF ~fs.d \/ fs.l2 = "none" THEN "none"
                 ELSE IF Present(fs, fs.l2) THEN fs.l2 ELSE "none"
ResolveL1(fs) == IF fs.l1 = "none" THEN "none"
                 ELSE IF fs.l1 = "L2" THEN ResolveL2(fs)
                 ELSE IF Present(fs, fs.l1) THEN fs.l1 ELSE "none"

\* children of a directory: << name, kind, node >>
Children(fs, dir) ==
  CASE dir = "T" -> {<<"f", "file", "F">> : x \in {1} \cap (IF fs.f THEN {1} ELSE {})}
                    \cup {<<"g", "file", "G">> : x \in {1} \cap (IF fs.g THEN {1} ELSE {})}
                    \cup {<<"d", "dir", "D">> : x \in {1} \cap (IF fs.d THEN {1} ELSE {})}
                    \cup {<<"e", "dir", "E">> : x \in {1} \cap (IF fs.e THEN {1} ELSE {})}
                    \cup {<<"l1", "link", ResolveL1(fs)>> : x \in {1} \cap (IF fs.l1 # "none" THEN {1} ELSE {})}
    [] dir = "D" -> {<<"f", "file", "DF">> : x \in {1} \cap (IF fs.df THEN {1} ELSE {})}
                    \cup {<<"h", "file", "DH">> : x \in {1} \cap (IF fs.dh THEN {1} ELSE {})}
                    \cup {<<IF fs.l2g THEN "g" ELSE "l2", "link", ResolveL2(fs)>> : x \in {1} \cap (IF fs.l2 # "none" THEN {1} ELSE {})}
    [] OTHER -> {}

RECURSIVE Walk(_, _, _, _)
\* all [path, file] reachable below directory `dir` reached as `path`, with descent stack `stack`
Walk(fs, path, dir, stack) ==
  UNION {
    LET name == c[1]  kind == c[2]  node == c[3]  p == Append(path, name) IN
    CASE kind = "file" -> {[path |-> p, file |-> node]}
      [] kind = "dir"  -> Walk(fs, p, node, stack \cup {node})
      [] kind = "link" ->
           IF node \in Files THEN {[path |-> p, file |-> node]}
           ELSE IF node \in Dirs /\ node \notin stack THEN Walk(fs, p, node, stack \cup {node})
           ELSE {}
    : c \in Children(fs, dir)}

\* a path argument (already normalised) denotes a starting node
ArgNode(fs, arg) ==
  CASE arg = <<"t">>           -> "T"
    [] arg = <<"t", "d">>      -> IF fs.d THEN "D" ELSE "none"
    [] arg = <<"t", "e">>      -> IF fs.e THEN "E" ELSE "none"
    [] arg = <<"t", "f">>      -> IF fs.f THEN "F" ELSE "none"
    [] arg = <<"t", "g">>      -> IF fs.g THEN "G" ELSE "none"
    [] arg = <<"t", "l1">>     -> ResolveL1(fs)
    [] OTHER -> "none"

FromArg(fs, arg) ==
  LET n == ArgNode(fs, arg) IN
  IF n \in Files THEN {[path |-> arg, file |-> n]}
  ELSE IF n \in Dirs THEN Walk(fs, arg, n, {n})
  ELSE {}

RECURSIVE JoinSlash(_)
JoinSlash(p) == IF Len(p) = 1 THEN p[1] ELSE p[1] \o "/" \o JoinSlash(Tail(p))

\* strip prefixes are given as path prefixes (sequences of names, meaning "<names joined>/")
IsPre(pre, p) == Len(pre) < Len(p) /\ SubSeq(p, 1, Len(pre)) = pre
Stripped(p, strips) ==
  LET M == {s \in strips : IsPre(s, p)} IN
  IF M = {} THEN p
  ELSE LET best == CHOOSE s \in M : \A o \in M : Len(o) <= Len(s)
       IN SubSeq(p, Len(best) + 1, Len(p))

\* the recording: either a collision error or a set of [key, file]
Entries(fs, args, strips) == UNION {FromArg(fs, args[i]) : i \in DOMAIN args}
Keyed(fs, args, strips) == {[key |-> JoinSlash(Stripped(e.path, strips)), file |-> e.file] : e \in Entries(fs, args, strips)}
Collision(fs, args, strips) ==
  \E a, b \in Keyed(fs, args, strips) : a.key = b.key /\ a.file # b.file
ReachableFiles(fs, args) == {e.file : e \in Entries(fs, args, {})}

\* ---- running a step: materials before the command, products after it
\* "rewrite_f": new content of the SAME LENGTH, the file's modification time put back to what it was
Cmds == {"none", "create_g", "delete_f", "modify_f", "rewrite_f", "create_in_d"}
ApplyCmd(x, c) ==
  CASE c = "create_g"    -> [x EXCEPT !.g = TRUE]
    [] c = "delete_f"    -> [x EXCEPT !.f = FALSE]
    [] c = "create_in_d" -> [x EXCEPT !.d = TRUE, !.dh = TRUE]
    [] OTHER             -> x
\* a modified file has new content: it is another file ("F2") under the same path
AfterEntries(x, c, as, st) ==
  {[key |-> e.key, file |-> IF c = "modify_f" /\ e.file = "F" THEN "F2"
                            ELSE IF c = "rewrite_f" /\ e.file = "F" THEN "F3" ELSE e.file] : e \in Keyed(ApplyCmd(x, c), as, st)}

-----------------------------------------------------------------------------
VARIABLES fs, args, strips, pc, ai, recorded, res
rvars == <<fs, args, strips, pc, ai, recorded, res>>

RInitRest == pc = "walk" /\ ai = 1 /\ recorded = {} /\ res = "run"

\* the recording, one step per path argument (the code loops over the arguments);
\* two DIFFERENT files under one key are an error, the same file under the same key
\* (overlapping arguments) is recorded once
RecordArg ==
  /\ pc = "walk" /\ ai <= Len(args)
  /\ LET new == {[key |-> JoinSlash(Stripped(e.path, strips)), file |-> e.file] : e \in FromArg(fs, args[ai])}
         clash == \E a \in new, b \in recorded \cup new : a.key = b.key /\ a.file # b.file
     IN IF clash THEN res' = "err" /\ pc' = "done" /\ UNCHANGED <<recorded, ai>>
        ELSE recorded' = recorded \cup new /\ ai' = ai + 1 /\ UNCHANGED <<res, pc>>
  /\ UNCHANGED <<fs, args, strips>>

RecordEnd ==
  /\ pc = "walk" /\ ai > Len(args)
  /\ res' = "ok" /\ pc' = "done"
  /\ UNCHANGED <<fs, args, strips, ai, recorded>>

RNext == RecordArg \/ RecordEnd

RDone == pc = "done"
Result == recorded

\* C18 on the machine: exactly the files present, each under its key; collision <=> error
Exact == (RDone /\ res = "ok") => Result = Keyed(fs, args, strips)
ErrIffCollision == RDone => ((res = "err") <=> Collision(fs, args, strips))
EveryFileOnce == (RDone /\ res = "ok") => {e.file : e \in Result} = ReachableFiles(fs, args)
=============================================================================
