CONSTANT Tier = "thorough"
SPECIFICATION MCSpec
INVARIANT MachineAgreesMC
INVARIANT RuleRoundTripMC
INVARIANT Emit
CHECK_DEADLOCK FALSE
