CONSTANT Dev = {}
SPECIFICATION MCSpec
INVARIANT OkOnlyIfNec
INVARIANT Emit
CHECK_DEADLOCK FALSE
