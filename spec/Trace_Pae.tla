----------------------------- MODULE Trace_Pae -----------------------------
(* Trace validation for Pae.tla: the harness drives the real pack / unpack  *)
(* (guarded re-export) on seeded random (type, payload) pairs and logs      *)
(*   {"ev":"pack","t":[..],"p":[..],"out":[..]}     bytes produced          *)
(*   {"ev":"unpack","input":[..],"res":"ok","t":[..],"p":[..]}              *)
(* Every packed string must equal Pack(t, p); every unpack of a packed      *)
(* string must be what the parser machine computes.                         *)
EXTENDS Pae, Json, IOUtils

Rec == ndJsonDeserialize(IOEnv.TRACE)
VARIABLE l
tvars == <<pvars, l>>

TInit == l = 1 /\ TLCSet(1, 0) /\ input = << >> /\ rest = << >> /\ pc = "idle" /\ n = 0
         /\ typ = << >> /\ payload = << >> /\ res = "run"

IsEvent(e) == l <= Len(Rec) /\ Rec[l].ev = e /\ l' = l + 1

TPack ==
  /\ IsEvent("pack") /\ pc = "idle"
  /\ Rec[l].out = Pack(Rec[l].t, Rec[l].p)
  /\ UNCHANGED pvars

\* start decoding the logged input (consumes nothing)
TStart ==
  /\ l <= Len(Rec) /\ Rec[l].ev = "unpack" /\ pc = "idle"
  /\ input' = Rec[l].input /\ rest' = Rec[l].input /\ pc' = "prefix" /\ n' = 0
  /\ typ' = << >> /\ payload' = << >> /\ res' = "run"
  /\ UNCHANGED l

TStep == pc \notin {"idle", "done"} /\ PNext /\ UNCHANGED l

TUnpack ==
  /\ IsEvent("unpack") /\ pc = "done"
  /\ Rec[l].res = res
  /\ res = "ok" => Rec[l].t = typ /\ Rec[l].p = payload
  /\ pc' = "idle" /\ UNCHANGED <<input, rest, n, typ, payload, res>>

TNext == TPack \/ TStart \/ TStep \/ TUnpack
TSpec == TInit /\ [][TNext]_tvars

Track == IF l > TLCGet(1) THEN TLCSet(1, l) ELSE TRUE
Accepted ==
  IF TLCGet(1) = Len(Rec) + 1 THEN TRUE
  ELSE PrintT(<<"REJECTED_AT", TLCGet(1)>>) /\ FALSE
=============================================================================
