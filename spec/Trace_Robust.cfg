SPECIFICATION TSpec
CONSTRAINT Track
INVARIANT Total
POSTCONDITION Accepted
CHECK_DEADLOCK FALSE
