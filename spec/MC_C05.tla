------------------------------ MODULE MC_C05 ------------------------------
(* Bounded instance of Lifecycle.tla + CJson.tla for C05.                   *)
(*  (i)  every single-field edit of a signed layout / link (Edit) must      *)
(*       invalidate the signatures (EditInvalidates);                       *)
(*  (ii) every near-collision pair of string contents over                  *)
(*       {backslash, quote, n, LF, short-escape control, other ASCII}       *)
(*       has different signed bytes (Olpc injective), so swapping one for   *)
(*       the other is an edit too.                                          *)
EXTENDS Lifecycle, Json

CONSTANT MaxPair

LinkEdits == {"name", "mat_path", "mat_path_backslash", "prod_path", "mat_digest", "prod_digest", "mat_alg", "prod_alg", "mat_add",
              "prod_remove", "command_arg", "command_split", "command_add", "stdout", "stdout_trailing_newline",
              "stderr", "retval", "byp_extra_add", "byp_extra_change", "env_to_null", "env_to_empty", "env_add",
              "env_change", "env_key",
              \* an artifact recorded with two hash algorithms: either digest changed or dropped
              "two_alg_sha256", "two_alg_sha512", "two_alg_drop256", "two_alg_drop512",
              \* structure-level near collisions: two members folded into one whose NAME spells the
              \* boundary, two array elements folded into one whose content spells the boundary
              "env_fold", "byp_fold", "command_fold", "paths_fold",
              \* a character beyond U+00FF exchanged for the ASCII character with the same low byte (U+0141 / A,
              \* U+4E42 / B, U+1F643 / C), in a string value and in a member name
              "high_twin_value", "high_twin_key", "high_twin_astral",
              \* a sibling member added whose name is an existing member's with one character exchanged for its
              \* low-byte / low-16-bit twin
              "twin_member_add8", "twin_member_add16"}
\* expires_plus_year / _day: applied by the harness at every date class (mid-year, 29 Dec .. 3 Jan of
\* several years, leap day, month ends) - "expiry to the second" must hold at every calendar position
LayoutEdits == {"readme", "expires_plus1", "expires_minus1", "expires_plus_year", "expires_plus_day", "pubkeys_case", "step_name", "step_threshold", "step_threshold_zero", "step_threshold_one_to_zero", "match_empty_src", "match_empty_dst",
                "pubkeys_add", "pubkeys_remove", "pubkeys_swap", "step_command", "rule_keyword", "rule_pattern", "rule_pattern_backslash",
                "rule_add", "rule_remove", "rule_swap", "match_src", "match_dst", "match_drop_src", "match_with",
                "match_from", "match_with_dstonly", "match_with_srconly", "match_with_bare", "insp_name", "insp_run", "insp_rule", "keys_add", "keys_remove",
                "key_entry_scheme", "key_entry_public", "key_entry_halgs", "key_entry_type", "steps_swap",
                "inspect_swap", "inspect_remove", "high_twin_value", "high_twin_astral"}

CJ == INSTANCE CJson
NearAlpha == {"B", "Q", "n", "N", "E", "A"}
NearStrs == UNION {[1..m -> NearAlpha] : m \in 0..MaxPair}

ASSUME NearInjective ==
  Cardinality({CJ!Olpc(a) : a \in NearStrs}) = Cardinality(NearStrs)

VARIABLES from, to
mc5vars == <<lvars, from, to>>

MCInit ==
  /\ ctor \in {"new", "build"}
  /\ signers \in {<<"k1">>, <<"k1", "k2">>}
  /\ fmt \in {"compact", "pretty"}
  /\ field \in {"link", "layout"}
  /\ str = << >>
  /\ \/ from = << >> /\ to = << >>
     \/ from \in NearStrs /\ to \in NearStrs /\ from # to /\ ctor = "new" /\ fmt = "compact" /\ signers = <<"k1">>
  /\ LInitRest

EditString ==
  /\ pc = "edit" /\ from # to
  /\ content' = "v1" /\ ops' = Append(ops, [op |-> "edit", field |-> "string", to |-> to]) /\ pc' = "mutate"
  /\ UNCHANGED <<params, sigs, vkeys, t, res>>

UF == UNCHANGED <<from, to>>
AConstruct == Construct /\ UF
AWrite == Write /\ UF
ARead == Read /\ UF
AEdit == from = to /\ (\E f \in (IF field = "link" THEN LinkEdits ELSE LayoutEdits) : Edit(f)) /\ UF
AEditString == EditString /\ UF
ANoMutation == NoMutation /\ UF
AChooseKeys == ChooseKeys("signers") /\ UF
AVerify == Verify /\ UF
MCNext == AConstruct \/ AWrite \/ ARead \/ AEdit \/ AEditString \/ ANoMutation \/ AChooseKeys \/ AVerify

MCSpec == MCInit /\ [][MCNext]_mc5vars

SetToSeqL(S) == IF S = {"ok"} THEN <<"ok">> ELSE IF S = {"err"} THEN <<"err">> ELSE <<"ok", "err">>
Emit ==
  LDone =>
    PrintT(<<"SCN", ToJson(
      [m |-> "LIFE", doc |-> field, s |-> str, from |-> from, ops |-> ops, out |-> res, allow |-> IF res \in AllowedVerdicts THEN SetToSeqL(AllowedVerdicts) ELSE <<res>>,
       near |-> (from # to)])>>)
=============================================================================
