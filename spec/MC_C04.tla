------------------------------ MODULE MC_C04 ------------------------------
(* Bounded instance of Metablock.tla for property C04: every threshold,    *)
(* every authorised-key list and every signature list inside the bounds;    *)
(* TLC explores every visiting order of the de-duplicated signature map.    *)
EXTENDS Metablock, Json, SequencesExt

CONSTANTS MaxAuth, MaxSigs

Keys == {"k1", "k2", "k3"}
SigKeys == Keys \cup {"kx"}
Thresholds == {0, 1, 2, 3, MAXT}

SeqsUpTo(S, n) == UNION {[1..m -> S] : m \in 0..n}
SigSet == [kid : SigKeys, by : SigKeys, ok : BOOLEAN]

\* one signature repeated with another one in between (non-adjacent duplicates)
SplitDups == {<<a, b, a>> : a \in SigSet, b \in SigSet}

\* "ku": an authorised key for which no signature can ever be valid (its scheme is not implemented); entries that
\* claim its id are made by someone else.  Such an entry never counts - and never stands in the way of the others.
KuAuth == {<<"ku">>, <<"k1", "ku">>, <<"ku", "k1">>, <<"k1", "k2", "ku">>, <<"ku", "k2", "k1">>}
KuEntry == {[kid |-> "ku", by |-> "k1", ok |-> TRUE], [kid |-> "ku", by |-> "kx", ok |-> FALSE]}
KuSigs == {<<e>> : e \in KuEntry}
          \cup {<<e, [kid |-> "k1", by |-> "k1", ok |-> TRUE]>> : e \in KuEntry}
          \cup {<<[kid |-> "k1", by |-> "k1", ok |-> TRUE], e>> : e \in KuEntry}
          \cup {<<[kid |-> "k2", by |-> "k2", ok |-> TRUE], e, [kid |-> "k1", by |-> "k1", ok |-> TRUE]>> : e \in KuEntry}

\* entries attributed to an identifier that is k1's SPELT DIFFERENTLY (upper-case hexadecimal letters "k1^", another
\* last character "k1~"), genuinely made with k1's key: they name no authorised key and never count - alone, next to
\* k1's own entry, in either order
Near(n) == [kid |-> n, by |-> "k1", ok |-> TRUE]
Own(k) == [kid |-> k, by |-> k, ok |-> TRUE]
NearAuth == {<<"k1">>, <<"k1", "k2">>, <<"k2", "k1">>}
NearSigs == UNION {{<<Near(n)>>, <<Own("k1"), Near(n)>>, <<Near(n), Own("k1")>>, <<Near(n), Own("k1"), Near(n)>>,
                    <<Own("k2"), Near(n)>>, <<Near(n), Own("k2"), Own("k1")>>} : n \in {"k1^", "k1~"}}
            \cup {<<Near("k1^"), Near("k1~")>>, <<Near("k1~"), Own("k1"), Near("k1^")>>}

MCInit ==
  /\ t \in Thresholds
  /\ \/ auth \in SeqsUpTo(Keys, MaxAuth) /\ sigs \in SeqsUpTo(SigSet, MaxSigs) \cup SplitDups
     \/ auth \in KuAuth /\ sigs \in KuSigs
     \/ auth \in NearAuth /\ sigs \in NearSigs
  /\ MInitRest

MCSpec == MCInit /\ [][MNext]_mvars

Emit ==
  Done =>
    PrintT(<<"SCN", ToJson(
      [m |-> "C04", t |-> t, auth |-> auth, sigs |-> sigs,
       out |-> res, allow |-> SetToSeq(Allowed),
       good |-> Cardinality(GoodKeys), once |-> AtMostOnce])>>)
=============================================================================
