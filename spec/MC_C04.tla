------------------------------ MODULE MC_C04 ------------------------------
(* Bounded instance of Metablock.tla for property C04: every threshold,    *)
(* every authorised-key list and every signature list inside the bounds;    *)
(* TLC explores every visiting order of the de-duplicated signature map.    *)
EXTENDS Metablock, Json, SequencesExt

CONSTANTS MaxAuth, MaxSigs

Keys == {"k1", "k2", "k3"}
SigKeys == Keys \cup {"kx"}
Thresholds == {0, 1, 2, 3, MAXT}

SeqsUpTo(S, n) == UNION {[1..m -> S] : m \in 0..n}
SigSet == [kid : SigKeys, by : SigKeys, ok : BOOLEAN]

\* one signature repeated with another one in between (non-adjacent duplicates)
SplitDups == {<<a, b, a>> : a \in SigSet, b \in SigSet}

MCInit ==
  /\ t \in Thresholds
  /\ auth \in SeqsUpTo(Keys, MaxAuth)
  /\ sigs \in SeqsUpTo(SigSet, MaxSigs) \cup SplitDups
  /\ MInitRest

MCSpec == MCInit /\ [][MNext]_mvars

Emit ==
  Done =>
    PrintT(<<"SCN", ToJson(
      [m |-> "C04", t |-> t, auth |-> auth, sigs |-> sigs,
       out |-> res, allow |-> SetToSeq(Allowed),
       good |-> Cardinality(GoodKeys), once |-> AtMostOnce])>>)
=============================================================================
