------------------------------ MODULE MC_C12 ------------------------------
(* Bounded instance of KeyId.tla: every construction path of length <= 4    *)
(* for every key type, and every key table over 3 keys in which an entry    *)
(* may be filed under its own id, another key's id, or a foreign id.        *)
EXTENDS KeyId, Json, SequencesExt

VARIABLES table,       \* part 2: a function key -> where it is filed ("own", other key name, "foreign", "absent")
          embed,       \* what the key object's own "keyid" member says: "own" id, the "filed" id, or "absent"
          thalgs       \* whether the keys of the table carry a hash-algorithm list
mc12vars == <<kvars, table, embed, thalgs>>

TKeys == {"k1", "k2", "k3"}
Filing == {"own", "k1", "k2", "k3", "foreign", "absent"}

MCInit ==
  /\ \/ /\ typ \in Types /\ mat = "m1" /\ table = << >> /\ embed = "own" /\ thalgs = "default" /\ KInitRest
     \/ /\ typ = "table" /\ mat = "none" /\ d = [typ |-> "none"] /\ path = << >> /\ pc = "done"
        /\ table \in [TKeys -> Filing]
        /\ embed \in {"own", "filed", "absent"} /\ thalgs \in {"default", "absent"}
        /\ \A k \in TKeys : table[k] # k

UT == UNCHANGED <<table, embed, thalgs>>
AFromPrivate == (FromPrivate \/ FromGenerated) /\ UT
AFromRaw == (FromRaw \/ FromRawH \/ FromRawE) /\ UT
AFromSpki == (FromSpki \/ FromSpkiOtherScheme) /\ UT
AFromPem == FromPem /\ UT
AViaJson == (ViaJson \/ ViaJsonTxt) /\ UT
AViaSpki == ViaSpki /\ UT
AStop == Stop /\ UT
MCNext == AFromPrivate \/ AFromRaw \/ AFromSpki \/ AFromPem \/ AViaJson \/ AViaSpki \/ AStop
MCSpec == MCInit /\ [][MCNext]_mc12vars

\* which keys survive parsing, and under which id a signature labelled with k's own id is checked
Survivors == {k \in TKeys : table[k] = "own"}

Emit ==
  KDone =>
    PrintT(<<"SCN", ToJson(
      IF typ = "table"
      THEN [m |-> "C12", kind |-> "table", table |-> [k \in TKeys |-> table[k]], embed |-> embed, halgs |-> thalgs,
            survivors |-> SetToSeq(Survivors)]
      ELSE [m |-> "C12", kind |-> "path", typ |-> typ, path |-> path,
            halgs |-> d.halgs, scheme |-> d.scheme])>>)
=============================================================================
