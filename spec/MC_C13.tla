------------------------------ MODULE MC_C13 ------------------------------
(* Bounded instance of Verify.tla for C13: steps for which more valid       *)
(* authorised links exist than the threshold needs, the links differing,    *)
(* with rules (and the summary) that do or do not depend on which link      *)
(* represents the step.  Reduce is nondeterministic in the specification,   *)
(* so TLC yields, per scenario, the set of outcomes over all choices; the   *)
(* determinism oracle itself is Determinism.tla over repeated runs.         *)
EXTENDS VerifyMC

PEvil == <<"e", "v", "i", "l">>
Variant(v) ==
  CASE v = "A" -> {Art(PA, "h1")}
    [] v = "B" -> {Art(PA, "h1"), Art(PEvil, "h2")}
    [] v = "C" -> {Art(PA, "h2")}
    [] v = "D" -> {Art(PA, "both:h1")}          \* recorded with two hash algorithms

RuleSets == {"allow", "disallow_evil", "match"}
EP(rs) == CASE rs = "allow" -> <<Simple("ALLOW", <<"*">>)>>
            [] rs = "disallow_evil" -> <<Simple("DISALLOW", PEvil), Simple("ALLOW", <<"*">>)>>
            [] rs = "match" -> <<Simple("ALLOW", <<"*">>)>>

Layout(thr, rs, two) ==
  LayoutD(<<GoodSig("o1")>>, 1000, <<"k1", "k2", "k3">>,
          <<StepD("s1", <<"k1", "k2", "k3">>, thr, << >>, EP(rs))>>
          \o (IF two THEN <<StepD("s2", <<"k3">>, 1,
                                  IF rs = "match" THEN <<MatchR(PA, "P", "s1"), Simple("DISALLOW", <<"*">>)>>
                                  ELSE <<Simple("ALLOW", <<"*">>)>>,
                                  <<Simple("ALLOW", <<"*">>)>>)>> ELSE << >>),
          << >>)

S2 == <<Entry(<< >>, "s2", "k3", LinkD("s2", <<GoodSig("k3")>>, {Art(PA, "h1")}, {Art(PB, "h1")}))>>

\* sub-layout evidence by k3 whose summary products are variant v
SubEv(v) ==
  <<Entry(<< >>, "s1", "k3", LayoutD(<<GoodSig("k3")>>, 1000, <<"k2">>,
            <<StepD("in1", <<"k2">>, 1, << >>, <<Simple("ALLOW", <<"*">>)>>)>>, << >>)),
    Entry(<<"s1.k3">>, "in1", "k2", LinkD("in1", <<GoodSig("k2")>>, {}, Variant(v)))>>

\* sub-layout evidence whose own verification fails (badly signed inner link / inner rule failure):
\* the whole verification fails, and must leave nothing behind for later verifications
SubEvBad(how) ==
  <<Entry(<< >>, "s1", "k3", LayoutD(<<GoodSig("k3")>>, 1000, <<"k2">>,
            <<StepD("in1", <<"k2">>, 1, << >>,
                    IF how = "rule" THEN <<Simple("DISALLOW", <<"*">>)>> ELSE <<Simple("ALLOW", <<"*">>)>>)>>, << >>)),
    Entry(<<"s1.k3">>, "in1", "k2",
          LinkD("in1", <<IF how = "sig" THEN BadSig("k2") ELSE GoodSig("k2")>>, {}, Variant("A")))>>

\* an artifact recorded with two hash algorithms on both sides of a MATCH, agreeing under one algorithm and
\* differing under the other ("mix:a:b" = sha256 of a, sha512 of b): not the same artifact, whichever is looked at first
MixS2(d) == <<Entry(<< >>, "s2", "k3", LinkD("s2", <<GoodSig("k3")>>, {Art(PA, d)}, {Art(PB, "h1")}))>>
MixInit ==
  \E thr \in {1, 2}, d \in {"both:h1", "mix:h1:h2", "mix:h2:h1"}, third \in BOOLEAN :
     scn = Build(Layout(thr, "match", TRUE), Own("o1"),
                 <<Entry(<< >>, "s1", "k1", LinkD("s1", <<GoodSig("k1")>>, {}, Variant("D"))),
                   Entry(<< >>, "s1", "k2", LinkD("s1", <<GoodSig("k2")>>, {}, Variant("D")))>>
                 \o (IF third THEN <<Entry(<< >>, "s1", "k3", LinkD("s1", <<GoodSig("k3")>>, {}, Variant("D")))>> ELSE << >>)
                 \o MixS2(d), {})

LatticeInit ==
     \E thr \in {0, 1, 2}, rs \in RuleSets, two \in BOOLEAN,
        v1 \in {"A", "B", "C"}, v2 \in {"A", "B", "C"}, v3 \in {"none", "A", "B", "C", "subA", "subB", "subBadSig", "subBadRule"} :
       /\ (rs = "match" => two)
       /\ scn = Build(Layout(thr, rs, two), Own("o1"),
                      <<Entry(<< >>, "s1", "k1", LinkD("s1", <<GoodSig("k1")>>, {}, Variant(v1))),
                        Entry(<< >>, "s1", "k2", LinkD("s1", <<GoodSig("k2")>>, {}, Variant(v2)))>>
                      \o (CASE v3 = "none" -> << >>
                            [] v3 = "subA" -> SubEv("A")
                            [] v3 = "subB" -> SubEv("B")
                            [] v3 = "subBadSig" -> SubEvBad("sig")
                            [] v3 = "subBadRule" -> SubEvBad("rule")
                            [] OTHER -> <<Entry(<< >>, "s1", "k3", LinkD("s1", <<GoodSig("k3")>>, {}, Variant(v3)))>>)
                      \o (IF two THEN S2 ELSE << >>), {})

\* a link file with a second signature entry whose key id merely LOOKS like the functionary's (same first eight
\* characters - the part the file name carries - different further on; "k1~" in the concretisation): which entry
\* names the file's signer must not be a matter of iteration order
LookAlike(k) == [kid |-> k \o "~", by |-> "kx", ok |-> FALSE]
LookAlikeInit ==
  \E first \in BOOLEAN, thr \in {1, 2}, two \in BOOLEAN :
     scn = Build(Layout(thr, "allow", two), Own("o1"),
                 <<Entry(<< >>, "s1", "k1",
                         LinkD("s1", IF first THEN <<LookAlike("k1"), GoodSig("k1")>> ELSE <<GoodSig("k1"), LookAlike("k1")>>,
                               {}, Variant("A"))),
                   Entry(<< >>, "s1", "k2", LinkD("s1", <<GoodSig("k2"), LookAlike("k2"), LookAlike("k1")>>, {}, Variant("A")))>>
                 \o (IF two THEN S2 ELSE << >>), {})

\* two sub-layouts for one step, by different functionaries, one of them counter-signed by the other: each is
\* verified with ITS delegating key alone, in whatever order they are visited
SubBy(k, sigs) == LayoutD(sigs, 1000, <<"k3">>, <<StepD("in1", <<"k3">>, 1, << >>, <<Simple("ALLOW", <<"*">>)>>)>>, << >>)
TwoSubsInit ==
  \E thr \in {1, 2}, counter \in {"none", "k1", "k2", "both"} :
     scn = Build(Layout(thr, "allow", FALSE), Own("o1"),
                 <<Entry(<< >>, "s1", "k1", SubBy("k1", IF counter \in {"k1", "both"} THEN <<GoodSig("k1"), GoodSig("k2")>> ELSE <<GoodSig("k1")>>)),
                   Entry(<< >>, "s1", "k2", SubBy("k2", IF counter \in {"k2", "both"} THEN <<GoodSig("k2"), GoodSig("k1")>> ELSE <<GoodSig("k2")>>)),
                   Entry(<<"s1.k1">>, "in1", "k3", LinkD("in1", <<GoodSig("k3")>>, {}, Variant("A"))),
                   Entry(<<"s1.k2">>, "in1", "k3", LinkD("in1", <<GoodSig("k3")>>, {}, Variant("A")))>>, {})

\* next to the properly named file of a functionary lies a STRAY one whose name merely resembles the pattern
\* ("<step>.<id8>.link.link", "<step>..<id8>.link", ...), genuinely signed by the same functionary, with other
\* content: it is no evidence (its eight-character field is not the id prefix), whatever order the directory
\* lists its entries in
StrayForms == {"linklink", "lead", "leadlinklink"}
StrayInit ==
  \E form \in StrayForms, proper \in {"A", "B"}, thr \in {1} :
     LET stray == IF proper = "A" THEN "B" ELSE "A" IN
     scn = Build(Layout(thr, "disallow_evil", FALSE), Own("o1"),
                 <<Entry(<< >>, "s1", "k1", LinkD("s1", <<GoodSig("k1")>>, {}, Variant(proper))),
                   Entry(<< >>, "s1", "k1:" \o form, LinkD("s1", <<GoodSig("k1")>>, {}, Variant(stray)))>>, {})

\* two (three) inspections that depend on the ORDER the layout lists them in: the first creates a file which the
\* rules of a later one require among its materials - they run in the listed order, every time
PNew == <<"n", "e", "w">>
ICmd(effect) == [kind |-> "exit", code |-> 0, effect |-> effect,
                 path |-> IF effect = "create" THEN PNew ELSE << >>, digest |-> "h2"]
IMake == [name |-> "i1", namec |-> <<"i", "1">>, cmd |-> ICmd("create"),
          em |-> <<Simple("ALLOW", <<"*">>)>>, ep |-> <<Simple("ALLOW", <<"*">>)>>]
INeed(nm, nc) == [name |-> nm, namec |-> nc, cmd |-> ICmd("none"),
                  em |-> <<Simple("REQUIRE", PNew), Simple("ALLOW", <<"*">>)>>, ep |-> <<Simple("ALLOW", <<"*">>)>>]
InspOrderInit ==
  \E three \in BOOLEAN :
     scn = Build(LayoutD(<<GoodSig("o1")>>, 1000, <<"k1", "k2", "k3">>,
                         <<StepD("s1", <<"k1">>, 1, << >>, <<Simple("ALLOW", <<"*">>)>>)>>,
                         <<IMake, INeed("i2", <<"i", "2">>)>> \o (IF three THEN <<INeed("i0", <<"i", "0">>)>> ELSE << >>)),
                 Own("o1"),
                 <<Entry(<< >>, "s1", "k1", LinkD("s1", <<GoodSig("k1")>>, {}, Variant("A")))>>, {})

MCInit == (LatticeInit \/ MixInit \/ LookAlikeInit \/ TwoSubsInit \/ StrayInit \/ InspOrderInit) /\ VInitRest


MCSpec == MCInit /\ [][VNext]_vars
Emit == EmitAs("C13")
=============================================================================
