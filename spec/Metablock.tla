----------------------------- MODULE Metablock -----------------------------
(* Threshold verification of a signed metadata block                        *)
(* (Metablock::verify, src/models/metadata.rs).                             *)
(*                                                                          *)
(* Abstract input:                                                          *)
(*   t     threshold (a natural; MAXT stands for u32::MAX)                  *)
(*   auth  sequence of authorised keys (duplicates allowed)                 *)
(*   sigs  sequence of signatures [kid, by, ok]:                            *)
(*           kid  the key id the signature claims                           *)
(*           by   the key whose private half produced it                    *)
(*           ok   FALSE if the value was corrupted / made over other bytes  *)
(* A key is identified with its intrinsic id (Crypto abstraction: ids are   *)
(* injective, signatures unforgeable).                                      *)
(*                                                                          *)
(* The state machine has the shape of the code: two guards, construction of *)
(* the two maps (authorised keys by intrinsic id; signatures by claimed id, *)
(* one entry kept per id), then one Visit per map entry in   *)
(* ARBITRARY order (the code iterates a HashMap) with early exit.           *)
EXTENDS Naturals, Sequences, FiniteSets, TLC

MAXT == 99

Range(s) == {s[i] : i \in DOMAIN s}

\* signature s counts for key k
Valid(s, k) == s.kid = k /\ s.by = k /\ s.ok

VARIABLES t, auth, sigs,          \* the input
          pc, authset, sigmap, remaining, needed, counted, res

mvars == <<t, auth, sigs, pc, authset, sigmap, remaining, needed, counted, res>>
input == <<t, auth, sigs>>

MInitRest ==
  /\ pc = "empty" /\ authset = {} /\ sigmap = << >> /\ remaining = {}
  /\ needed = 0 /\ counted = {} /\ res = "run"

CheckEmpty ==
  /\ pc = "empty"
  /\ IF sigs = << >> THEN res' = "err" /\ pc' = "done"
     ELSE pc' = "thr" /\ UNCHANGED res
  /\ UNCHANGED <<input, authset, sigmap, remaining, needed, counted>>

CheckThr ==
  /\ pc = "thr"
  /\ IF t < 1 THEN res' = "err" /\ pc' = "done"
     ELSE pc' = "maps" /\ UNCHANGED res
  /\ UNCHANGED <<input, authset, sigmap, remaining, needed, counted>>

\* De-duplication by claimed id keeps ONE signature per id.  Which one is
\* left open here (the code keeps the last; C04 does not prescribe it), so
\* every claim below is established for every possible choice.
Maps ==
  /\ pc = "maps"
  /\ authset' = Range(auth)
  /\ remaining' = {s.kid : s \in Range(sigs)}
  /\ \E f \in [{s.kid : s \in Range(sigs)} -> Range(sigs)] :
        /\ \A k \in DOMAIN f : f[k].kid = k
        /\ sigmap' = f
  /\ needed' = t
  /\ pc' = "visit"
  /\ UNCHANGED <<input, counted, res>>

\* would visiting claimed id k count?
Counts(k) == k \in authset /\ Valid(sigmap[k], k)

Visit(k) ==
  /\ pc = "visit" /\ needed > 0 /\ k \in remaining
  /\ remaining' = remaining \ {k}
  /\ IF Counts(k)
     THEN needed' = needed - 1 /\ counted' = counted \cup {k}
     ELSE UNCHANGED <<needed, counted>>
  /\ UNCHANGED <<input, pc, authset, sigmap, res>>

Finish ==
  /\ pc = "visit" /\ (needed = 0 \/ remaining = {})
  /\ res' = IF needed = 0 THEN "ok" ELSE "err"
  /\ pc' = "done"
  /\ UNCHANGED <<input, authset, sigmap, remaining, needed, counted>>

MNext == CheckEmpty \/ CheckThr \/ Maps \/ (\E k \in remaining : Visit(k)) \/ Finish

-----------------------------------------------------------------------------
(* Requirement layer: C04 transcribed.                                      *)
GoodKeys == {k \in Range(auth) : \E s \in Range(sigs) : Valid(s, k)}

\* "each key signs at most once", read conservatively: no two signatures
\* share a claimed id and no two were made by the same key.
AtMostOnce ==
  \A i, j \in DOMAIN sigs :
     i # j => sigs[i].kid # sigs[j].kid /\ sigs[i].by # sigs[j].by

MustFail == t < 1 \/ Cardinality(GoodKeys) < t
MustPass == ~MustFail /\ AtMostOnce

Allowed == IF MustFail THEN {"err"} ELSE IF MustPass THEN {"ok"} ELSE {"ok", "err"}

Done == pc = "done"
Sound    == Done /\ res = "ok" => ~MustFail
Complete == Done /\ MustPass => res = "ok"
\* counting never double counts and never counts a bad key
CountedGood == counted \subseteq GoodKeys /\ (pc = "visit" => needed + Cardinality(counted) = t)
=============================================================================
