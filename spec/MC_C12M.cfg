

SPECIFICATION MCSpec
INVARIANT Sound
INVARIANT Complete
INVARIANT CountedGood
INVARIANT Emit
CHECK_DEADLOCK FALSE
