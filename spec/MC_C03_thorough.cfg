CONSTANT Mode = "all"
CONSTANT PairAlphabet = "all"
CONSTANT PairStates = "cover"
SPECIFICATION MCSpec
INVARIANT Agree
INVARIANT Emit
PROPERTY ConsumeOnlyMatching
PROPERTY QueueShrinks
CHECK_DEADLOCK FALSE
