CONSTANT Tier = "quick"
SPECIFICATION MCSpec
INVARIANT UntouchedVerifies
INVARIANT EditInvalidates
INVARIANT NoForeignKey
INVARIANT Emit
CHECK_DEADLOCK FALSE
