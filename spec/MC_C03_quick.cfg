CONSTANT Mode = "all"
SPECIFICATION MCSpec
INVARIANT Agree
INVARIANT Emit
PROPERTY ConsumeOnlyMatching
PROPERTY QueueShrinks
CHECK_DEADLOCK FALSE
