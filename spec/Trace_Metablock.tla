-------------------------- MODULE Trace_Metablock --------------------------
(* Trace validation for Metablock.tla: an ndjson trace recorded from the    *)
(* real Metablock::verify (hook event sig_counted) must be a behaviour of   *)
(* the specification.  Runs are concatenated:                               *)
(*   {"ev":"reset","t":..,"auth":[..],"sigs":[{kid,by,ok}..]}               *)
(*   {"ev":"sig_counted","key":"k1"} ...                                    *)
(*   {"ev":"result","out":"ok"|"err"}                                       *)
(* Guards, map construction, non-counting visits and Finish are not logged; *)
(* they are taken as silent specification steps.                            *)
EXTENDS Metablock, Json, IOUtils

Rec == ndJsonDeserialize(IOEnv.TRACE)

VARIABLE l
tvars == <<mvars, l>>

Thr(x) == IF x >= MAXT THEN MAXT ELSE x

TInit ==
  /\ l = 1 /\ TLCSet(1, 0)
  /\ t = 0 /\ auth = << >> /\ sigs = << >>
  /\ pc = "idle" /\ authset = {} /\ sigmap = << >> /\ remaining = {}
  /\ needed = 0 /\ counted = {} /\ res = "run"

IsEvent(e) == l <= Len(Rec) /\ Rec[l].ev = e /\ l' = l + 1

TReset ==
  /\ IsEvent("reset") /\ pc = "idle"
  /\ t' = Thr(Rec[l].t) /\ auth' = Rec[l].auth /\ sigs' = Rec[l].sigs
  /\ pc' = "empty" /\ authset' = {} /\ sigmap' = << >> /\ remaining' = {}
  /\ needed' = 0 /\ counted' = {} /\ res' = "run"

TCounted ==
  /\ IsEvent("sig_counted")
  /\ Visit(Rec[l].key)
  /\ counted' # counted

TSilent ==
  /\ l <= Len(Rec) /\ Rec[l].ev \in {"sig_counted", "result"}
  /\ \/ CheckEmpty \/ CheckThr \/ Maps \/ Finish
     \/ \E k \in remaining : Visit(k) /\ counted' = counted
  /\ UNCHANGED l

TResult ==
  /\ IsEvent("result") /\ pc = "done" /\ res = Rec[l].out
  /\ Rec[l].out \in Allowed
  /\ pc' = "idle"
  /\ UNCHANGED <<input, authset, sigmap, remaining, needed, counted, res>>

TNext == TReset \/ TCounted \/ TSilent \/ TResult
TSpec == TInit /\ [][TNext]_tvars

Track == IF l > TLCGet(1) THEN TLCSet(1, l) ELSE TRUE
Accepted ==
  IF TLCGet(1) = Len(Rec) + 1 THEN TRUE
  ELSE PrintT(<<"REJECTED_AT", TLCGet(1)>>) /\ FALSE
=============================================================================
