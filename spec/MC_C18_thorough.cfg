CONSTANT Tier = "thorough"
SPECIFICATION MCSpec
INVARIANT Exact
INVARIANT ErrIffCollision
INVARIANT EveryFileOnce
INVARIANT Emit
CHECK_DEADLOCK FALSE
