------------------------------ MODULE MC_C06 ------------------------------
(* Bounded instance of Verify.tla for C06: expiry instants around the       *)
(* verification time, in every RFC 3339 notation class, for the top-level   *)
(* layout and for a delegated sub-layout.                                   *)
EXTENDS VerifyMC

ProdA == {Art(PA, "h1")}
\* seconds relative to the verification time.  TLC's integers are 32-bit: the values beyond +-2.0e9 are
\* names of calendar extremes which the concretisation spells out (year 1, 1000, 1500, 1699, 293 and 292
\* years before; 292 and 293 years after, year 9999) - a strictly monotone map, so `<` means the same.
\* -2020000000: the latest 30 December (noon) before the verification time that lies in ISO week 1 of the next year.
\* -2110000000: a year before year 0 (constructible through the builder, not writable in the document's notation).
Offsets == {-2110000000, -2100000000, -2090000000, -2080000000, -2070000000, -2060000000, -2050000000, -2020000000,
            -2000000000, -86400, -3600, -61, -1, 0, 1, 61, 3600, 86400, 2000000000,
            2050000000, 2060000000, 2100000000}
Fmts == {"Z", "+00:00", "-00:00", "+02:00", "-07:30", "+14:00", "Z.25", "Z.999999999", "+05:45.5", "lower"}

Sub(exp, fmt) ==
  [LayoutD(<<GoodSig("k1")>>, exp, <<"k3">>,
           <<StepD("in1", <<"k3">>, 1, << >>, <<Simple("CREATE", PA)>>)>>, << >>) EXCEPT !.fmt = fmt]

Top1(exp, fmt) ==
  [LayoutD(<<GoodSig("o1")>>, exp, <<"k1", "k3">>,
           <<StepD("s1", <<"k1">>, 1, << >>, <<Simple("CREATE", PA)>>)>>, << >>) EXCEPT !.fmt = fmt]

TopCase(exp, fmt) ==
  Build(Top1(exp, fmt), Own("o1"),
        <<Entry(<< >>, "s1", "k1", LinkD("s1", <<GoodSig("k1")>>, {}, ProdA))>>, {})

SubCase(exp, fmt) ==
  Build(Top1(1000, "Z"), Own("o1"),
        <<Entry(<< >>, "s1", "k1", Sub(exp, fmt)),
          Entry(<<"s1.k1">>, "in1", "k3", LinkD("in1", <<GoodSig("k3")>>, {}, ProdA))>>, {})

\* the degenerate layout - no steps, no inspections - expires like any other, at the top and when delegated to
EmptyTop(exp, fmt) ==
  Build([LayoutD(<<GoodSig("o1")>>, exp, <<"k1">>, << >>, << >>) EXCEPT !.fmt = fmt], Own("o1"), << >>, {})
EmptySub(exp, fmt) ==
  Build(Top1(1000, "Z"), Own("o1"),
        <<Entry(<< >>, "s1", "k1", [LayoutD(<<GoodSig("k1")>>, exp, <<"k3">>, << >>, << >>) EXCEPT !.fmt = fmt])>>, {})

\* a sub-layout the step does not NEED (another functionary's plain link already meets the threshold) is reached
\* all the same, and must be unexpired
SurplusSub(exp, fmt, thr) ==
  Build([LayoutD(<<GoodSig("o1")>>, 1000, <<"k1", "k2", "k3">>,
                 <<StepD("s1", <<"k1", "k2">>, thr, << >>, <<Simple("CREATE", PA)>>)>>, << >>) EXCEPT !.fmt = "Z"],
        Own("o1"),
        <<Entry(<< >>, "s1", "k2", LinkD("s1", <<GoodSig("k2")>>, {}, ProdA)),
          Entry(<< >>, "s1", "k1", Sub(exp, fmt)),
          Entry(<<"s1.k1">>, "in1", "k3", LinkD("in1", <<GoodSig("k3")>>, {}, ProdA))>>, {})

\* the verification instant itself moves from one verification to the next (the other scenarios all verify at
\* instant 0): each verification is judged against ITS instant, whatever was verified - or failed - before it
Nows == {-7200, 1800, 5000, 90000}
MovingNow ==
  \E n \in Nows, exp \in {-3600, 0, 3600, 86400}, lvl \in {"top", "sub"} :
     scn = [(IF lvl = "top" THEN TopCase(exp, "Z") ELSE SubCase(exp, "Z")) EXCEPT !.now = n]

MCInit ==
  /\ \/ MovingNow
     \/ \E exp \in Offsets, fmt \in {"Z", "+02:00"}, thr \in {1} : scn = SurplusSub(exp, fmt, thr)
     \/ \E exp \in Offsets, fmt \in Fmts, lvl \in {"top", "sub"} :
          scn = IF lvl = "top" THEN TopCase(exp, fmt) ELSE SubCase(exp, fmt)
     \/ \E exp \in Offsets, fmt \in {"Z", "+02:00", "Z.25"}, lvl \in {"top", "sub"} :
          scn = IF lvl = "top" THEN EmptyTop(exp, fmt) ELSE EmptySub(exp, fmt)
  /\ VInitRest

MCSpec == MCInit /\ [][VNext]_vars
Emit == EmitAs("C06")
=============================================================================
