CONSTANT Dev = {}
CONSTANT Deep = FALSE
SPECIFICATION MCSpec
INVARIANT OkOnlyIfNec
INVARIANT Emit
CHECK_DEADLOCK FALSE
