------------------------------ MODULE MC_C03P ------------------------------
(* C03 inside the pipeline: the item whose rules are applied and the items  *)
(* those rules may refer to.  When the rules of a STEP are processed the    *)
(* only links that exist are those of the steps (reduced to one per step);  *)
(* an inspection has not run yet, so a MATCH that names it, like one that   *)
(* names nothing at all, consumes nothing.  When the rules of an INSPECTION *)
(* are processed every step and every inspection has its link.              *)
EXTENDS VerifyMC

PG == <<"g">>
ProdA(d) == {Art(PA, d)}
Cmd0 == [kind |-> "exit", code |-> 0, effect |-> "none", path |-> << >>, digest |-> "h2"]

\* whom the step's MATCH rule names
Refs == {"i1", "s2", "s1", "zz"}
Insp1(em, ep) == [name |-> "i1", namec |-> <<"i", "1">>, cmd |-> Cmd0, em |-> em, ep |-> ep]

Layout(ref, side, tail, irule) ==
  LayoutD(<<GoodSig("o1")>>, 1000, <<"k1", "k3">>,
          <<StepD("s1", <<"k1">>, 1, << >>,
                  <<MatchR(PA, side, ref)>> \o (IF tail = "disallow" THEN <<Simple("DISALLOW", <<"*">>)>> ELSE <<Simple("ALLOW", <<"*">>)>>)),
            StepD("s2", <<"k3">>, 1, << >>, <<Simple("ALLOW", <<"*">>)>>)>>,
          <<Insp1(<<Simple("ALLOW", <<"*">>)>>,
                  \* the inspection's own rules may refer to the steps (which do have links by then)
                  IF irule = "match_s1" THEN <<MatchR(PA, "P", "s1"), Simple("ALLOW", <<"S", ".", "*">>), Simple("DISALLOW", <<"*">>)>>
                  ELSE <<Simple("ALLOW", <<"*">>)>>)>>)

MCInit ==
  /\ \E ref \in Refs, side \in {"P", "M"}, tail \in {"disallow", "allow"}, irule \in {"allow", "match_s1"},
        dcwd \in {"h1", "h2"}, ds2 \in {"h1", "h2"} :
       scn = Build(Layout(ref, side, tail, irule), Own("o1"),
                   <<Entry(<< >>, "s1", "k1", LinkD("s1", <<GoodSig("k1")>>, {}, ProdA("h1"))),
                     Entry(<< >>, "s2", "k3", LinkD("s2", <<GoodSig("k3")>>, ProdA(ds2), ProdA(ds2)))>>,
                   \* the working directory of the verification holds the same path (what the inspection will record)
                   {Art(PA, dcwd)})
  /\ VInitRest

MCSpec == MCInit /\ [][VNext]_vars
Emit == EmitAs("C03")
=============================================================================
