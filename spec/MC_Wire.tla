------------------------------ MODULE MC_Wire ------------------------------
(* Bounded instance of Wire.tla for C16 / C17 / C19.                        *)
(*  kind "rule" : token sequences = every valid rule form with operands     *)
(*                that may spell keywords, plus every single-token          *)
(*                deletion / insertion / replacement of them;               *)
(*  kind "link" | "layout" : shape descriptors of documents, taken through  *)
(*                Serialize -> Respell -> Parse -> Reserialize;             *)
(*  kind "pred" : every subset of the predicate field universe x kind of    *)
(*                "materials" x timestamp form;                             *)
(*  kind "stmt" : every subset of the statement field universe; declared    *)
(*                predicate type x contained predicate format.              *)
EXTENDS Wire, Json, SequencesExt

CONSTANT Tier

VARIABLES kind, desc
mwvars == <<wvars, kind, desc>>

Operands == {"x", "IN", "FROM", "WITH", "MATCH", "", "x/", " x ", "X", "./x"}
Vocab == SimpleKinds \cup {"MATCH", "IN", "WITH", "MATERIALS", "PRODUCTS", "FROM", "x", "match", "Materials"}

ValidRules ==
  {<<k, p>> : k \in {"CREATE", "DISALLOW"}, p \in Operands}
  \cup {<<"MATCH", p>> \o s \o <<"WITH", w>> \o d \o <<"FROM", f>> :
          p \in {"x", "IN", "WITH"}, w \in {"MATERIALS", "PRODUCTS"},
          s \in {<< >>, <<"IN", "x">>, <<"IN", "WITH">>, <<"IN", "IN">>, <<"IN", "x/">>, <<"IN", " x ">>},
          d \in {<< >>, <<"IN", "x">>, <<"IN", "FROM">>, <<"IN", "d//">>, <<"IN", "/">>},
          f \in {"x", "FROM", "", "x/", "X"}}

DeleteAt(s, i) == SubSeq(s, 1, i - 1) \o SubSeq(s, i + 1, Len(s))
InsertBefore(s, i, e) == SubSeq(s, 1, i - 1) \o <<e>> \o SubSeq(s, i, Len(s))
ReplaceAtW(s, i, e) == [s EXCEPT ![i] = e]
MutVocab == IF Tier = "quick" THEN {"IN", "WITH", "FROM", "MATERIALS", "x", "match"} ELSE Vocab
Mutations(s) ==
  {DeleteAt(s, i) : i \in 1..Len(s)}
  \cup {InsertBefore(s, i, e) : i \in 1..(Len(s) + 1), e \in MutVocab}
  \cup {ReplaceAtW(s, i, e) : i \in 1..Len(s), e \in MutVocab}
BaseForMut == {r \in ValidRules : \A i \in 2..Len(r) : r[i] \in {"x", "IN", "WITH", "FROM", "MATERIALS", "PRODUCTS"} /\ r[2] = "x"}
RuleInputs == ValidRules \cup UNION {Mutations(r) : r \in BaseForMut} \cup {<< >>, <<"CREATE">>}

\* ---- document shape descriptors
StrClasses == {<< >>, <<"A">>, <<"Q">>, <<"B">>, <<"N">>, <<"E">>, <<"C">>, <<"U">>, <<"S">>, <<"B", "n">>}
LinkDescs ==
  [env : {"none", "empty", "one", "two"}, extras : {0, 1, 2}, mats : {0, 2}, prods : {0, 1},
   cmd : {"empty", "args"}, str : IF Tier = "quick" THEN {<< >>, <<"N">>, <<"S">>} ELSE StrClasses,
   retval : {"absent", "zero", "neg", "max"}, stdout : {"absent", "present"}, sigs : {"none", "two"}, reserved : {"none"}]
  \cup
  \* an EXTRA byproduct whose name is one of the three typed members (obtainable from the builder)
  [env : {"none"}, extras : {0}, mats : {0}, prods : {0}, cmd : {"empty"}, str : {<< >>},
   retval : {"absent", "zero"}, stdout : {"absent", "present"}, sigs : {"none"},
   reserved : {"stdout", "stderr", "return-value"}]
  \cup
  \* signature lists with repeated signers ("dup": the same key twice in a row, "aba": with another in between,
  \* "dupdup": two keys, each twice) - obtainable from Metablock::new
  [env : {"none", "one"}, extras : {0}, mats : {0, 2}, prods : {0}, cmd : {"args"}, str : {<< >>},
   retval : {"zero"}, stdout : {"present"}, sigs : {"dup", "aba", "dupdup", "one"}, reserved : {"none"}]
LayoutDescs ==
  [steps : {0, 1, 2}, rules : {"none", "simple", "match_full", "match_nosrc", "match_nodst", "match_bare", "match_slash", "all"},
   thr : {"zero", "one", "max"}, keys : {"none", "ed", "rsa", "ec", "all"}, insp : {0, 1},
   str : IF Tier = "quick" THEN {<< >>, <<"Q">>, <<"U">>} ELSE StrClasses,
   expires : {"epoch", "now", "far", "yearend"}, sigs : {"none", "one"}]
  \cup
  [steps : {1}, rules : {"simple"}, thr : {"one"}, keys : {"ed"}, insp : {0}, str : {<< >>},
   expires : {"now"}, sigs : {"dup", "aba", "dupdup", "two"}]

\* ---- attestation descriptors
TsForms == {"none", "Z", "offset", "frac"}
\* nest: how the nested optional members of SLSA documents are populated
\*   "full"  every nested optional member present; "empty" nested objects present but empty
\*   ("completeness": {}, "invocation": {}, a material {}); "min" nested optional members absent
PredDescs ==
  [fields : SUBSET PredFields, mat : {"map", "list"}, ts : {"none"}, nest : {"full"}]
  \cup [fields : {fs \in SUBSET PredFields : "builder" \in fs /\ fs \subseteq SlsaV01Req \cup SlsaV01Opt \cup SlsaV02Req \cup SlsaV02Opt},
        mat : {"list"}, ts : {"none"}, nest : {"empty", "min"}]
  \cup [fields : {{"builder", "metadata"}, {"builder", "buildType", "metadata"}, {"builder", "metadata", "materials"}},
        mat : {"list"}, ts : TsForms \ {"none"}, nest : {"full"}]
StmtDescs ==
  [fields : SUBSET StmtFields, declared : {"link02"}, contained : {"link02"}]
  \cup [fields : {V01Req}, declared : {"link02", "slsa01", "slsa02", "unknown"}, contained : {"link02", "slsa01", "slsa02"}]
  \* declared type strings that are NEARLY a known one: "<v>+" the known string with something appended,
  \* "<v>-" with its last character missing, "<v>^" in another letter case (they name no known format)
  \cup [fields : {V01Req}, declared : {v \o m : v \in {"link02", "slsa01", "slsa02"}, m \in {"+", "-", "^"}},
        contained : {"link02", "slsa01", "slsa02"}]
  \* the statement's OWN type string ("_type") is the other format's, an unknown one or empty, on documents of
  \* exactly one format's shape: whatever is then decided, parser and version judgement decide the same
  \cup [fields : {V01Req, NaiveReq, NaiveReq \cup NaiveOpt}, declared : {"link02"}, contained : {"link02"},
        stype : {"crossed", "unknown", "empty"}]

MCInit ==
  /\ \/ kind = "rule" /\ toks \in RuleInputs /\ desc = [x |-> 0]
     \/ kind = "link" /\ desc \in LinkDescs /\ toks = << >>
     \/ kind = "layout" /\ desc \in LayoutDescs /\ toks = << >>
     \/ kind = "pred" /\ desc \in PredDescs /\ toks = << >>
     \/ kind = "stmt" /\ desc \in StmtDescs /\ toks = << >>
  /\ pos = 1 /\ acc = [k |-> ""] /\ res = "run"
  /\ pc = IF kind = "rule" THEN "kind" ELSE "serialize"

UK == UNCHANGED <<kind, desc>>
AReadKind == kind = "rule" /\ ReadKind /\ UK
AReadSrc == ReadSrc /\ UK
AReadWith == ReadWith /\ UK
AReadDst == ReadDst /\ UK
AReadFrom == ReadFrom /\ UK

\* document life cycle (abstract: every step is the identity on the described value)
DocStep(from, to) == pc = from /\ pc' = to /\ UNCHANGED <<toks, pos, acc, res, kind, desc>>
ASerialize == kind \in {"link", "layout"} /\ DocStep("serialize", "respell")
ARespell == pc = "respell" /\ DocStep("respell", "parse")
AParse == pc = "parse" /\ DocStep("parse", "reserialize")
AReserialize == pc = "reserialize" /\ pc' = "done" /\ res' = "ok" /\ UNCHANGED <<toks, pos, acc, kind, desc>>
\* attestations: recognise
ARecognise ==
  /\ kind \in {"pred", "stmt"} /\ pc = "serialize"
  /\ res' = IF kind = "pred"
            THEN (IF PredVersions(desc.fields, desc.mat) = {} THEN "err" ELSE "ok")
            ELSE (IF StmtVersions(desc.fields) = {} THEN "err"
                  ELSE IF "predicate" \in desc.fields /\ ~StmtV01Ok(desc.declared, desc.contained) THEN "err"
                  ELSE "ok")
  /\ pc' = "done" /\ UNCHANGED <<toks, pos, acc, kind, desc>>

MCNext == AReadKind \/ AReadSrc \/ AReadWith \/ AReadDst \/ AReadFrom
          \/ ASerialize \/ ARespell \/ AParse \/ AReserialize \/ ARecognise
MCSpec == MCInit /\ [][MCNext]_mwvars

MachineAgreesMC == kind = "rule" => MachineAgrees
RuleRoundTripMC == kind = "rule" => RuleRoundTrip

VersionOf ==
  IF kind = "pred" THEN SetToSeq(PredVersions(desc.fields, desc.mat))
  ELSE IF kind = "stmt" THEN SetToSeq(StmtVersions(desc.fields)) ELSE << >>

Emit ==
  WDone =>
    PrintT(<<"SCN", ToJson(
      CASE kind = "rule" -> [m |-> "WIRE", kind |-> kind, toks |-> toks, out |-> res,
                             rule |-> IF res = "ok" THEN acc ELSE [ok |-> FALSE]]
        [] kind \in {"pred", "stmt"} ->
             [m |-> "WIRE", kind |-> kind,
              desc |-> [desc EXCEPT !.fields = SetToSeq(@)], out |-> res, version |-> VersionOf]
        [] OTHER -> [m |-> "WIRE", kind |-> kind, desc |-> desc, out |-> res])>>)
=============================================================================
