CONSTANT Dev = {}
CONSTANT Tier = "thorough"
SPECIFICATION MCSpec
INVARIANT OkOnlyIfNec
INVARIANT Emit
CHECK_DEADLOCK FALSE
