------------------------------ MODULE MC_C10 ------------------------------
(* Bounded instance of CJsonValues.tla for C10: TLC enumerates JSON value   *)
(* shapes (scalars incl. every number class, strings over the character     *)
(* classes, arrays, objects, two levels of nesting), checks that an         *)
(* order-free canonical writer over them is accepted by the acceptor, and   *)
(* emits each value with the allowed verdicts.                              *)
EXTENDS CJsonValues, Json, SequencesExt

CONSTANT Tier

Strs1 == StrsUpTo(1)
KeyStrs == IF Tier = "quick" THEN {<< >>, <<"A">>, <<"Q">>, <<"B">>, <<"N">>, <<"U">>, <<"S">>, <<"C">>}
           ELSE Strs1
Scalars == {Null, Bool(TRUE), Bool(FALSE)} \cup {Num(c) : c \in NumClasses} \cup {Str(s) : s \in StrsUpTo(1)}
            \cup {Str(<<"B", "n">>), Str(<<"A", "S">>), Str(<<"Q", "Q">>), Str(<<"B", "u">>)}
Sc0 == {Null, Bool(TRUE), Num("zero"), Num("u64max"), Num("neg"), Num("frac"), Num("exp"), Str(<< >>), Str(<<"Q">>), Str(<<"U">>)}
Arrs1 == {Arr(<< >>)} \cup {Arr(<<x>>) : x \in Scalars} \cup {Arr(<<x, y>>) : x \in Sc0, y \in Sc0}
Objs1 == {Obj({})} \cup {Obj({[k |-> k, v |-> x]}) : k \in KeyStrs, x \in Sc0}
         \cup {Obj({[k |-> kk[1], v |-> x], [k |-> kk[2], v |-> y]}) :
                 kk \in {q \in KeyStrs \X KeyStrs : q[1] # q[2]},
                 x \in {Null, Num("pos"), Str(<<"A">>)}, y \in {Null, Num("pos"), Str(<<"A">>)}}
Inner == {Arr(<< >>), Obj({}), Arr(<<Num("pos"), Str(<<"N">>)>>),
          Obj({[k |-> <<"A">>, v |-> Num("i64min")], [k |-> <<"U">>, v |-> Bool(FALSE)]}),
          Obj({[k |-> <<"A">>, v |-> Num("frac")]})}
Nested == {Arr(<<x, y>>) : x \in Inner, y \in Inner \cup {Null}}
          \cup {Obj({[k |-> <<"A">>, v |-> x], [k |-> <<"S">>, v |-> y]}) : x \in Inner, y \in Inner}
\* wider and deeper shapes: three members / elements (ordering and separators beyond the first pair), nesting to
\* depth 4, a non-integer three levels down
K3 == {<<<<"A">>, <<"U">>, <<"S">>>>, <<<<"Q">>, <<"B">>, <<"N">>>>, <<<< >>, <<"A">>, <<"A", "A">>>>, <<<<"C">>, <<"E">>, <<"D">>>>}
Wide == {Obj({[k |-> ks[1], v |-> Num("pos")], [k |-> ks[2], v |-> Str(<<"A">>)], [k |-> ks[3], v |-> Null]}) : ks \in K3}
        \cup {Arr(<<x, y, z>>) : x \in {Num("zero"), Str(<<"Q">>)}, y \in {Null, Arr(<< >>)}, z \in {Num("i64max"), Obj({})}}
DeepOf(x) == Arr(<<Obj({[k |-> <<"A">>, v |-> Arr(<<Obj({[k |-> <<"U">>, v |-> x]})>>)]})>>)
Deeper == {DeepOf(x) : x \in {Num("u64max"), Num("frac"), Num("exp"), Str(<<"N">>), Arr(<< >>), Obj({}), Bool(FALSE)}}
\* towers: a scalar (or an empty container) 63 .. 126 containers down - around the depths at which writers and
\* parsers commonly draw a line (64, 100, 128)
TowerNames == [n : {63, 64, 65, 66, 100, 126}, sh : {"arr", "obj", "mix"},
               x : {Num("pos"), Num("frac"), Str(<<"Q">>), Arr(<< >>), Null}]
Towers == {Tower(tw.n, tw.sh, tw.x) : tw \in TowerNames}
Values == Scalars \cup Arrs1 \cup Objs1 \cup Nested \cup Wide \cup Deeper \cup Towers

\* a canonical writer that is free in exactly what C10 leaves free (member order is
\* fixed by code points of the concrete keys, which the abstract level does not see)
RECURSIVE Write(_)
WriteStr(s) == [k |-> "str", s |-> s, a |-> Serde(s)]
Tok(k) == [k |-> k]
RECURSIVE Sep(_, _)
Sep(parts, i) == IF i > Len(parts) THEN << >>
                 ELSE (IF i > 1 THEN <<Tok(",")>> ELSE << >>) \o parts[i] \o Sep(parts, i + 1)
Write(v) ==
  CASE v.t = "null" -> <<Tok("null")>>
    [] v.t = "bool" -> <<Tok(IF v.b THEN "true" ELSE "false")>>
    [] v.t = "num"  -> <<[k |-> "num", c |-> v.c, exact |-> TRUE]>>
    [] v.t = "str"  -> <<WriteStr(v.s)>>
    [] v.t = "arr"  -> <<Tok("[")>> \o Sep([i \in DOMAIN v.a |-> Write(v.a[i])], 1) \o <<Tok("]")>>
    [] v.t = "obj"  -> LET ms == SetToSeq(v.o) IN
                       <<Tok("{")>> \o Sep([i \in DOMAIN ms |-> <<WriteStr(ms[i].k), Tok(":")>> \o Write(ms[i].v)], 1)
                       \o <<Tok("}")>>

VARIABLES v, pc, res, toks
mcvars == <<v, pc, res, toks>>

MCInit == v \in Values /\ pc = "convert" /\ res = "run" /\ toks = << >>

\* conversion to the ordered tree: integers only
Convert ==
  /\ pc = "convert"
  /\ IF \A c \in NumsIn(v) : NumRule(c) = "exact"
     THEN pc' = "write" /\ UNCHANGED res
     ELSE pc' = "done" /\ res' = "err"
  /\ UNCHANGED <<v, toks>>

WriteOut ==
  /\ pc = "write"
  /\ toks' = Write(v) /\ res' = "ok" /\ pc' = "done"
  /\ UNCHANGED v

MCSpec == MCInit /\ [][Convert \/ WriteOut]_mcvars

Done == pc = "done"
WriterAccepted == (Done /\ res = "ok") => Renders(toks, v)
VerdictAllowed == Done => res \in AllowedRes(v)

RECURSIVE VJ(_)
VJ(x) ==
  CASE x.t = "arr" -> [t |-> "arr", a |-> [i \in DOMAIN x.a |-> VJ(x.a[i])]]
    [] x.t = "obj" -> [t |-> "obj", o |-> SetToSeq({[k |-> m.k, v |-> VJ(m.v)] : m \in x.o})]
    [] OTHER -> x

NameOf(x) == IF x \in Towers THEN LET tw == CHOOSE w \in TowerNames : Tower(w.n, w.sh, w.x) = x
                                   IN [t |-> "tower", n |-> tw.n, sh |-> tw.sh, x |-> VJ(tw.x)]
             ELSE VJ(x)
Emit ==
  Done => PrintT(<<"SCN", ToJson([m |-> "C10", v |-> NameOf(v), out |-> res, allow |-> SetToSeq(AllowedRes(v))])>>)
=============================================================================
