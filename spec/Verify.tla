------------------------------- MODULE Verify -------------------------------
(* Final-product verification (in_toto_verify, src/verifylib.rs) as a state *)
(* machine with one action per stage of the code and a stack of frames for  *)
(* sub-layout delegation, plus the requirement layer (Nec..., C01 C02 C06   *)
(* C07 C08 C15 transcribed as necessary conditions of success).             *)
(*                                                                          *)
(* Abstract input `scn` (chosen by the MC_* modules in Init, immutable):    *)
(*   now     verification instant (integer seconds)                         *)
(*   ckeys   << [label, key] >>  the caller's key map (label = id it is     *)
(*           filed under, key = the actual key; aliasing is expressible)    *)
(*   docs    << doc >>; docs[1] is the layout handed to verification        *)
(*   dirs    << [path |-> << component >>, files |-> << file >>] >>          *)
(*   cwd     artifacts present in the working directory                     *)
(* file = [step, fkey, doc]   a file named <step>.<prefix of fkey>.link     *)
(* doc  = [typ |-> "layout", sigs, edit, expires, keys, steps, inspect]     *)
(*      | [typ |-> "link", sigs, edit, mats, prods, cmd, byp]               *)
(*      | [typ |-> "garbage"]                                               *)
(* sig  = [kid, by, ok]  claimed id, actual signer, intact                  *)
(* edit = "none" or the name of a field changed after signing: signatures   *)
(*        were made over the content before the change.                     *)
(* Keys are identified with their intrinsic ids (Crypto abstraction).       *)
EXTENDS RulesCore, Integers, SequencesExt

CONSTANT Dev   \* named deviations of the implementation; {} = intended algorithm

VDevIds == {"D_C02_ANY_LAYOUT_KEY", "D_C08_EXIT_STATUS_IGNORED"}

VARIABLES scn, stack, verdict, why, ran, written, cwd, summary, warns
vars == <<scn, stack, verdict, why, ran, written, cwd, summary, warns>>

SR(s) == {s[i] : i \in DOMAIN s}
Doc(i) == scn.docs[i]

SigValid(s, k, d) == s.kid = k /\ s.by = k /\ s.ok /\ d.edit = "none"
DocSignedBy(d, k) == d.typ # "garbage" /\ \E s \in SR(d.sigs) : SigValid(s, k, d)

DirFiles(dir) ==
  LET D == {x \in SR(scn.dirs) : x.path = dir}
  IN IF D = {} THEN {} ELSE SR((CHOOSE x \in D : TRUE).files)

StepNames(L) == {s.name : s \in SR(L.steps)}
StepOf(L, n) == CHOOSE s \in SR(L.steps) : s.name = n

SubDir(dir, step, kid) == Append(dir, step \o "." \o kid)
OneKey(k) == << [label |-> k, key |-> k] >>

LinkOf(d) == [mats |-> d.mats, prods |-> d.prods, cmd |-> d.cmd, byp |-> d.byp]
EmptyLink == [mats |-> {}, prods |-> {}, cmd |-> "", byp |-> ""]

NewFrame(lay, ckeys, dir, name) ==
  [lay |-> lay, ckeys |-> ckeys, dir |-> dir, name |-> name, pc |-> "sig",
   loaded |-> << >>, counted |-> << >>, ev |-> << >>, pending |-> {}, cur |-> [step |-> "", kid |-> ""],
   red |-> << >>, ii |-> 1]

Top == stack[Len(stack)]
SetTop(f) == [stack EXCEPT ![Len(stack)] = f]
L == Doc(Top.lay)

Running(pc) == verdict = "run" /\ stack # << >> /\ Top.pc = pc

Fail(stage) ==
  /\ verdict' = "err"
  /\ why' = [stage |-> stage, depth |-> Len(stack)]
  /\ UNCHANGED <<scn, stack, summary, warns>>

Goto(pc) == stack' = SetTop([Top EXCEPT !.pc = pc])

VInitRest ==
  /\ stack = << NewFrame(1, scn.ckeys, << >>, "") >>
  /\ verdict = "run" /\ why = [stage |-> "", depth |-> 0]
  /\ ran = << >> /\ written = {} /\ cwd = scn.cwd /\ summary = EmptyLink /\ warns = {}

-----------------------------------------------------------------------------
\* 1. layout signatures: threshold = number of caller map entries, keys = its values
LayoutSig ==
  /\ Running("sig")
  /\ LET auth == {ck.key : ck \in SR(Top.ckeys)}
         t    == Cardinality({ck.label : ck \in SR(Top.ckeys)})
         good == {k \in auth : DocSignedBy(L, k)}
     IN IF L.typ = "layout" /\ L.sigs # << >> /\ t >= 1 /\ Cardinality(good) >= t
        THEN Goto("expiry") /\ UNCHANGED <<verdict, why>>
        ELSE Fail("layout_sig")
  /\ UNCHANGED <<scn, ran, written, cwd, summary, warns>>

\* 2. expiry
Expiry ==
  /\ Running("expiry")
  /\ IF L.expires < scn.now THEN Fail("expiry")
     ELSE Goto("load") /\ UNCHANGED <<verdict, why>>
  /\ UNCHANGED <<scn, ran, written, cwd, summary, warns>>

\* 3. link loading: <step>.????????.link, filed under the first signature whose
\*    id prefix equals the file-name part; an unparsable file aborts
\*    (an id "k~" is one that only LOOKS like k's: same first eight characters, different further on)
HasPrefixOf(kid, fkey) == kid = fkey \/ kid = fkey \o "~"
FirstWithPrefix(sigs, fkey) ==
  LET I == {i \in DOMAIN sigs : HasPrefixOf(sigs[i].kid, fkey)}
  IN sigs[CHOOSE i \in I : \A j \in I : i <= j].kid
Candidates(dir, s) ==
  {[kid |-> FirstWithPrefix(Doc(f.doc).sigs, f.fkey), doc |-> f.doc] :
     f \in {g \in DirFiles(dir) :
              /\ g.step = s.name /\ Doc(g.doc).typ # "garbage"
              /\ \E sg \in SR(Doc(g.doc).sigs) : HasPrefixOf(sg.kid, g.fkey)}}

LoadLinks ==
  /\ Running("load")
  /\ LET garbage == \E s \in SR(L.steps), f \in DirFiles(Top.dir) :
                       f.step = s.name /\ Doc(f.doc).typ = "garbage"
     IN IF garbage \/ \E s \in SR(L.steps) : Cardinality(Candidates(Top.dir, s)) < s.thr
        THEN Fail("load_links")
        ELSE /\ stack' = SetTop([Top EXCEPT !.pc = "linksig",
                         !.loaded = [n \in StepNames(L) |-> Candidates(Top.dir, StepOf(L, n))]])
             /\ UNCHANGED <<verdict, why>>
  /\ UNCHANGED <<scn, ran, written, cwd, summary, warns>>

\* 4. per-step signature thresholds: signer in the layout's key table, authorised
\*    for the step, and a valid signature by exactly that key
GoodEntries(s, entries) ==
  {e \in entries :
     /\ e.kid \in SR(L.keys)
     /\ e.kid \in SR(s.pubkeys) \/ "D_C02_ANY_LAYOUT_KEY" \in Dev
     /\ DocSignedBy(Doc(e.doc), e.kid)}

LinkSigs ==
  /\ Running("linksig")
  /\ IF \E s \in SR(L.steps) : Cardinality(GoodEntries(s, Top.loaded[s.name])) < s.thr
     THEN Fail("link_sigs")
     ELSE LET cnt == [n \in StepNames(L) |-> GoodEntries(StepOf(L, n), Top.loaded[n])]
          IN /\ stack' = SetTop([Top EXCEPT
                   !.pc = "sub", !.counted = cnt,
                   !.ev = [n \in StepNames(L) |->
                             {[kid |-> e.kid, link |-> LinkOf(Doc(e.doc))] :
                                e \in {x \in cnt[n] : Doc(x.doc).typ = "link"}}],
                   !.pending = UNION {{[step |-> n, kid |-> e.kid, doc |-> e.doc] :
                                         e \in {x \in cnt[n] : Doc(x.doc).typ = "layout"}} :
                                      n \in StepNames(L)}])
             /\ UNCHANGED <<verdict, why>>
  /\ UNCHANGED <<scn, ran, written, cwd, summary, warns>>

\* 5. sub-layouts: full verification with the single delegating key, in <step>.<keyid8>/
EnterSub ==
  /\ Running("sub") /\ Top.pending # {}
  /\ \E p \in Top.pending :
       stack' = Append(SetTop([Top EXCEPT !.pending = @ \ {p}, !.cur = [step |-> p.step, kid |-> p.kid]]),
                       NewFrame(p.doc, OneKey(p.kid), SubDir(Top.dir, p.step, p.kid), p.step))
  /\ UNCHANGED <<scn, verdict, why, ran, written, cwd, summary, warns>>

SubDone ==
  /\ Running("sub") /\ Top.pending = {}
  /\ Goto("align")
  /\ UNCHANGED <<scn, verdict, why, ran, written, cwd, summary, warns>>

\* 5b. command alignment: a recorded command that differs from the step's expected command is
\*     only WARNED about - this stage never fails and never changes what is verified
ExpectedCmd(s) == "c." \o s.name
CommandAlign ==
  /\ Running("align")
  /\ warns' = warns \cup {s.name : s \in {x \in SR(L.steps) : \E e \in Top.ev[x.name] : e.link.cmd # ExpectedCmd(x)}}
  /\ Goto("agree")
  /\ UNCHANGED <<scn, verdict, why, ran, written, cwd, summary>>

\* 6. agreement of all counted links of a step with threshold >= 2
Agreement ==
  /\ Running("agree")
  /\ IF \E s \in SR(L.steps) :
          s.thr >= 2 /\ \E a, b \in Top.ev[s.name] :
                           a.link.mats # b.link.mats \/ a.link.prods # b.link.prods
     THEN Fail("agreement")
     ELSE Goto("reduce") /\ UNCHANGED <<verdict, why>>
  /\ UNCHANGED <<scn, ran, written, cwd, summary, warns>>

\* 7. reduction: one representative link per step - WHICH one is left open
\*    (the code iterates a hash map; C13 demands only that the choice be stable)
Reduce ==
  /\ Running("reduce")
  /\ IF \E n \in StepNames(L) : Top.ev[n] = {}
     THEN Fail("reduce")
     ELSE /\ \E pick \in [StepNames(L) -> UNION {Top.ev[n] : n \in StepNames(L)}] :
               /\ \A n \in StepNames(L) : pick[n] \in Top.ev[n]
               /\ stack' = SetTop([Top EXCEPT !.pc = "rules",
                                   !.red = [n \in StepNames(L) |-> pick[n].link]])
          /\ UNCHANGED <<verdict, why>>
  /\ UNCHANGED <<scn, ran, written, cwd, summary, warns>>

\* 8. artifact rules of every step
ItemOf(x) == [name |-> x.name, em |-> x.em, ep |-> x.ep]

StepRules ==
  /\ Running("rules")
  /\ IF \A s \in SR(L.steps) : ItemOk(ItemOf(s), Top.red, {})
     THEN Goto("inspect") /\ UNCHANGED <<verdict, why>>
     ELSE Fail("step_rules")
  /\ UNCHANGED <<scn, ran, written, cwd, summary, warns>>

\* 9. inspections, in order, in the working directory
Sentinel(I) == [p |-> <<"S", ".">> \o I.namec, d |-> "he"]
LinkFile(I) == [p |-> I.namec \o <<".", "l", "i", "n", "k">>, d |-> "hl." \o I.name]
Without(arts, p) == {a \in arts : a.p # p}
Effect(arts, c) ==
  CASE c.effect = "none"   -> arts
    [] c.effect = "create" -> Without(arts, c.path) \cup {[p |-> c.path, d |-> c.digest]}
    [] c.effect = "modify" -> IF c.path \in Paths(arts)
                              THEN Without(arts, c.path) \cup {[p |-> c.path, d |-> c.digest]}
                              ELSE arts
    [] c.effect = "delete" -> Without(arts, c.path)

RunInspection ==
  /\ Running("inspect") /\ Top.ii <= Len(L.inspect)
  /\ LET I == L.inspect[Top.ii]
         c == I.cmd
         after == Effect(Without(cwd, Sentinel(I).p) \cup {Sentinel(I)}, c)
     IN IF c.kind = "notfound"
        THEN Fail("inspection") /\ UNCHANGED <<ran, written, cwd>>
        ELSE /\ ran' = Append(ran, I.name)
             /\ IF c.kind = "signal"
                THEN Fail("inspection") /\ cwd' = after /\ UNCHANGED written
                ELSE IF c.code # 0 /\ "D_C08_EXIT_STATUS_IGNORED" \notin Dev
                THEN Fail("inspection") /\ cwd' = after /\ UNCHANGED written
                ELSE /\ written' = written \cup {I.name}
                     /\ cwd' = Without(after, LinkFile(I).p) \cup {LinkFile(I)}
                     /\ stack' = SetTop([Top EXCEPT !.ii = @ + 1,
                          !.red = [n \in DOMAIN Top.red \cup {I.name} |->
                                     IF n = I.name
                                     THEN [mats |-> cwd, prods |-> after, cmd |-> "", byp |-> ""]
                                     ELSE Top.red[n]]])
                     /\ UNCHANGED <<verdict, why, scn, summary>>
  /\ UNCHANGED <<scn, warns>>

InspectionsDone ==
  /\ Running("inspect") /\ Top.ii > Len(L.inspect)
  /\ Goto("irules")
  /\ UNCHANGED <<scn, verdict, why, ran, written, cwd, summary, warns>>

\* 10. artifact rules of every inspection
InspectRules ==
  /\ Running("irules")
  /\ IF \A I \in SR(L.inspect) : ItemOk(ItemOf(I), Top.red, {})
     THEN Goto("summary") /\ UNCHANGED <<verdict, why>>
     ELSE Fail("inspect_rules")
  /\ UNCHANGED <<scn, ran, written, cwd, summary, warns>>

\* 11. summary link: first step's materials, last step's products / command / byproducts
SummaryOf(f) ==
  LET LL == Doc(f.lay) IN
  IF LL.steps = << >> THEN EmptyLink
  ELSE [mats  |-> f.red[LL.steps[1].name].mats,
        prods |-> f.red[LL.steps[Len(LL.steps)].name].prods,
        cmd   |-> f.red[LL.steps[Len(LL.steps)].name].cmd,
        byp   |-> f.red[LL.steps[Len(LL.steps)].name].byp]

Finish ==
  /\ Running("summary")
  /\ IF Len(stack) = 1
     THEN /\ verdict' = "ok" /\ summary' = SummaryOf(Top)
          /\ UNCHANGED <<stack, why>>
     ELSE LET parent == stack[Len(stack) - 1]
              p == parent.cur
          IN /\ stack' = [SubSeq(stack, 1, Len(stack) - 1) EXCEPT ![Len(stack) - 1] =
                   [parent EXCEPT !.ev = [parent.ev EXCEPT ![p.step] =
                       @ \cup {[kid |-> p.kid, link |-> SummaryOf(Top)]}]]]
             /\ UNCHANGED <<verdict, why, summary>>
  /\ UNCHANGED <<scn, ran, written, cwd, warns>>

VNext == LayoutSig \/ Expiry \/ LoadLinks \/ LinkSigs \/ EnterSub \/ SubDone \/ CommandAlign \/ Agreement
         \/ Reduce \/ StepRules \/ RunInspection \/ InspectionsDone \/ InspectRules \/ Finish

VTerminal == verdict \in {"ok", "err"}

-----------------------------------------------------------------------------
(* Requirement layer.  Declarative necessary conditions of success; nothing *)
(* here refers to the state machine above.                                  *)

Max2(a, b) == IF a > b THEN a ELSE b

\* C01: non-empty, non-aliased caller key set, every key has a valid signature
\* over exactly the shipped content
NecC01(lay, ckeys) ==
  /\ Doc(lay).typ = "layout"
  /\ ckeys # << >>
  /\ Cardinality({ck.key : ck \in SR(ckeys)}) = Cardinality({ck.label : ck \in SR(ckeys)})
  /\ \A ck \in SR(ckeys) : DocSignedBy(Doc(lay), ck.key)

\* C06
NecC06(lay) == Doc(lay).expires >= scn.now

RECURSIVE NecFrame(_, _, _, _)

\* C02 / C15: is the file for (step, k) in dir valid evidence?
EvidenceValid(lay, dir, s, k, depth) ==
  \E f \in DirFiles(dir) :
    /\ f.step = s.name /\ f.fkey = k
    /\ DocSignedBy(Doc(f.doc), k)
    /\ \/ Doc(f.doc).typ = "link"
       \/ /\ Doc(f.doc).typ = "layout" /\ depth > 0
          /\ NecFrame(f.doc, OneKey(k), SubDir(dir, s.name, k), depth - 1)

Authorised(lay, s) == SR(s.pubkeys) \cap SR(Doc(lay).keys)
GoodKeysOf(lay, dir, s, depth) == {k \in Authorised(lay, s) : EvidenceValid(lay, dir, s, k, depth)}

NecC02(lay, dir, depth) ==
  \A s \in SR(Doc(lay).steps) :
     Cardinality(GoodKeysOf(lay, dir, s, depth)) >= Max2(1, s.thr)

\* the plain-link evidence of a step (sub-layout evidence is summarised, not compared here)
GoodLinkDocs(lay, dir, s, depth) ==
  {Doc(f.doc) : f \in {g \in DirFiles(dir) :
       /\ g.step = s.name /\ g.fkey \in GoodKeysOf(lay, dir, s, depth)
       /\ Doc(g.doc).typ = "link" /\ DocSignedBy(Doc(g.doc), g.fkey)}}

\* A valid sub-layout stands for its SUMMARY link (first step's materials, last step's products).  The
\* requirement layer speaks about a summary only where it is determined: the sub-layout's first and last
\* step are each decided by exactly one piece of valid evidence, a plain link.
OneGoodPlain(lay, dir, s, depth) ==
  /\ Cardinality(GoodKeysOf(lay, dir, s, depth)) = 1
  /\ Cardinality(GoodLinkDocs(lay, dir, s, depth)) = 1
  /\ \A k \in GoodKeysOf(lay, dir, s, depth) :
       \A f \in DirFiles(dir) : f.step = s.name /\ f.fkey = k => Doc(f.doc).typ = "link"
SummaryDefined(sub, sdir, depth) ==
  LET st == Doc(sub).steps IN
  st # << >> /\ OneGoodPlain(sub, sdir, st[1], depth) /\ OneGoodPlain(sub, sdir, st[Len(st)], depth)
TheGoodLink(lay, dir, s, depth) == CHOOSE d \in GoodLinkDocs(lay, dir, s, depth) : TRUE
SummaryView(sub, sdir, depth) ==
  LET st == Doc(sub).steps IN
  [mats |-> TheGoodLink(sub, sdir, st[1], depth).mats, prods |-> TheGoodLink(sub, sdir, st[Len(st)], depth).prods]

\* what the valid evidence of a step reports: plain links as they are, sub-layouts through their summary
EvidenceViews(lay, dir, s, depth) ==
  {[mats |-> d.mats, prods |-> d.prods] : d \in GoodLinkDocs(lay, dir, s, depth)}
  \cup {SummaryView(f.doc, SubDir(dir, s.name, f.fkey), depth - 1) :
          f \in {g \in DirFiles(dir) :
                   /\ g.step = s.name /\ g.fkey \in GoodKeysOf(lay, dir, s, depth)
                   /\ Doc(g.doc).typ = "layout" /\ depth > 0
                   /\ SummaryDefined(g.doc, SubDir(dir, s.name, g.fkey), depth - 1)}}

\* C07
NecC07(lay, dir, depth) ==
  \A s \in SR(Doc(lay).steps) :
     s.thr >= 2 => \A a, b \in EvidenceViews(lay, dir, s, depth) : a = b

\* C03 inside the pipeline: when every step has exactly one piece of valid
\* evidence and it is a plain link, the step rules are decided by that link
OnlyPlain(lay, dir, depth) ==
  \A s \in SR(Doc(lay).steps) :
     /\ \A k \in GoodKeysOf(lay, dir, s, depth) :
          \A f \in DirFiles(dir) : f.step = s.name /\ f.fkey = k => Doc(f.doc).typ = "link"
     /\ Cardinality(GoodLinkDocs(lay, dir, s, depth)) = 1

NecStepRules(lay, dir, depth) ==
  OnlyPlain(lay, dir, depth) =>
    LET red == [n \in StepNames(Doc(lay)) |->
                  LinkOf(CHOOSE d \in GoodLinkDocs(lay, dir, StepOf(Doc(lay), n), depth) : TRUE)]
    IN \A s \in SR(Doc(lay).steps) : ItemOk(ItemOf(s), red, {})

\* everything that must hold before any inspection of this layout may start (C08)
NecPre(lay, ckeys, dir, depth) ==
  /\ NecC01(lay, ckeys) /\ NecC06(lay)
  /\ NecC02(lay, dir, depth) /\ NecC07(lay, dir, depth) /\ NecStepRules(lay, dir, depth)

\* C08: inspections exit with status 0 (and were started at all)
NecC08(lay) == \A I \in SR(Doc(lay).inspect) : I.cmd.kind = "exit" /\ I.cmd.code = 0

\* C08, last clause: what the inspections record is subject to their rules.
\* The links the inspections produce, by following the working directory:
RECURSIVE InspFold(_, _, _, _)
InspFold(insps, i, cw, acc) ==
  IF i > Len(insps) THEN acc
  ELSE LET I == insps[i]
           after == Effect(Without(cw, Sentinel(I).p) \cup {Sentinel(I)}, I.cmd)
       \* (an inspection named like a step REPLACES that step's entry: its rules are about what IT recorded)
       IN InspFold(insps, i + 1, Without(after, LinkFile(I).p) \cup {LinkFile(I)},
                   [n \in DOMAIN acc \cup {I.name} |->
                      IF n = I.name THEN [mats |-> cw, prods |-> after, cmd |-> "", byp |-> ""] ELSE acc[n]])

NoSubInspections == \A i \in 2..Len(scn.docs) : Doc(i).typ = "layout" => Doc(i).inspect = << >>

NecInspRules(lay, dir, depth) ==
  (lay = 1 /\ OnlyPlain(lay, dir, depth) /\ NecC08(lay) /\ NoSubInspections) =>
    LET red == [n \in StepNames(Doc(lay)) |->
                  LinkOf(CHOOSE d \in GoodLinkDocs(lay, dir, StepOf(Doc(lay), n), depth) : TRUE)]
        all == InspFold(Doc(lay).inspect, 1, scn.cwd, red)
    IN \A I \in SR(Doc(lay).inspect) : ItemOk(ItemOf(I), all, {})

NecFrame(lay, ckeys, dir, depth) ==
  NecPre(lay, ckeys, dir, depth) /\ NecC08(lay) /\ NecInspRules(lay, dir, depth)

\* C06, second sentence: EVERY sub-layout reached through delegation is unexpired - reached means filed for a
\* step by a functionary authorised for it and signed by him, whether or not the step needs that evidence
RECURSIVE NecC06Deep(_, _, _)
NecC06Deep(lay, dir, depth) ==
  /\ NecC06(lay)
  /\ depth > 0 =>
       \A s \in SR(Doc(lay).steps) : \A f \in DirFiles(dir) :
          (/\ f.step = s.name /\ Doc(f.doc).typ = "layout"
           /\ f.fkey \in Authorised(lay, s) /\ DocSignedBy(Doc(f.doc), f.fkey))
          => NecC06Deep(f.doc, SubDir(dir, s.name, f.fkey), depth - 1)

MaxDepth == 3
NecTop == NecFrame(1, scn.ckeys, << >>, MaxDepth) /\ (Doc(1).typ = "layout" => NecC06Deep(1, << >>, MaxDepth))

\* the master only-if invariant
OkOnlyIfNec == verdict = "ok" => NecTop

Allowed == IF NecTop THEN {"ok", "err"} ELSE {"err"}

\* C08: inspections that must not have been started / written
MustNotRunTop == IF NecPre(1, scn.ckeys, << >>, MaxDepth) THEN {} ELSE {I.name : I \in SR(Doc(1).inspect)}
MustNotRunSub ==
  UNION {IF /\ NecC01(1, scn.ckeys) /\ NecC06(1)
            /\ NecPre(f.doc, OneKey(f.fkey), SubDir(<< >>, f.step, f.fkey), MaxDepth - 1)
            /\ f.fkey \in UNION {Authorised(1, s) : s \in {x \in SR(Doc(1).steps) : x.name = f.step}}
         THEN {} ELSE {I.name : I \in SR(Doc(f.doc).inspect)} :
           f \in {g \in DirFiles(<< >>) : Doc(g.doc).typ = "layout"}}
MustNotRun == MustNotRunTop \cup MustNotRunSub

\* C08, "once an inspection does run, a non-zero exit status of its command makes verification fail" - whichever
\* layout of the scenario (the top one or a delegated one, needed for the verdict or not) the inspection belongs to
FailingInspections ==
  UNION {{I.name : I \in {J \in SR(Doc(i).inspect) : ~(J.cmd.kind = "exit" /\ J.cmd.code = 0)}} :
           i \in {j \in DOMAIN scn.docs : Doc(j).typ = "layout"}}
C08Exit == verdict = "ok" => SR(ran) \cap FailingInspections = {}

\* C08 as state invariants of the machine
C08Order == \A i \in DOMAIN ran : ran[i] \notin MustNotRun
C08Written == written \cap MustNotRun = {}
=============================================================================
