CONSTANT MaxAuth = 2
CONSTANT MaxSigs = 3
SPECIFICATION MCSpec
INVARIANT Sound
INVARIANT Complete
INVARIANT CountedGood
INVARIANT Emit
CHECK_DEADLOCK FALSE
