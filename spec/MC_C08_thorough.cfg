CONSTANT Dev = {}
SPECIFICATION MCSpec
INVARIANT OkOnlyIfNec
INVARIANT C08Order
INVARIANT C08Written
INVARIANT C08Exit
INVARIANT Emit
CHECK_DEADLOCK FALSE
