------------------------------- MODULE Robust -------------------------------
(* C14: every entry point that consumes attacker-controlled data is a TOTAL *)
(* function  input -> Value | Error.                                        *)
(*                                                                          *)
(* The specification contributes (a) the requirement - the only outcomes of *)
(* a call are "value" and "error"; there is no panic, abort, stack overflow *)
(* or non-termination action - and (b) the structured input space: an      *)
(* ADVERSARIAL CLASS LATTICE.  A document kind has fields; each field has a *)
(* default class and a set of representable-but-unusual classes.  A         *)
(* scenario sets at most two fields to unusual classes (all pairs), the     *)
(* rest to their defaults, and is offered to every entry point that         *)
(* consumes that document kind.                                             *)
EXTENDS Naturals, Sequences, FiniteSets, TLC

Kinds == {"linkfile", "layout", "rules", "keymat"}

FieldsOf(k) ==
  CASE k = "linkfile" -> {"sig_keyid", "sig_value", "signatures", "type", "name", "paths", "digest", "command",
                          "byproducts", "environment", "filename"}
    [] k = "layout"   -> {"expires", "keytable", "step_name", "threshold", "pubkeys", "rule", "inspect", "readme", "sigs", "links"}
    [] k = "rules"    -> {"item_paths", "ref_paths", "pattern", "prefix", "from"}
    [] k = "keymat"   -> {"form", "damage"}

ClassesOf(f) ==
  CASE f = "sig_keyid"   -> {"ok", "nonhex64", "multibyte_at_8", "multibyte_at_7", "short", "empty", "number", "len64_chars_not_bytes"}
    [] f = "sig_value"   -> {"ok", "odd_hex", "nonhex", "empty", "huge", "number"}
    \* "two_signers": two functionaries genuinely signed - MORE valid authorised signatures than the threshold asks for
    [] f = "signatures"  -> {"one", "none", "many", "not_array", "dup", "two_signers"}
    [] f = "type"        -> {"link", "layout", "other", "missing"}
    [] f = "name"        -> {"plain", "empty", "nonascii", "long", "glob", "slash", "dotdot"}
    [] f = "paths"       -> {"plain", "dot_slash_both", "dotdot", "absolute", "empty", "nonascii", "glob", "backslash", "trailing_slash"}
    [] f = "digest"      -> {"ok", "unknown_alg", "empty_map", "nonhex", "odd_hex", "not_map"}
    [] f = "command"     -> {"list", "empty", "string", "numbers"}
    [] f = "byproducts"  -> {"normal", "retval_min", "retval_big", "retval_float", "stdout_number", "nested", "empty"}
    [] f = "environment" -> {"null", "empty", "map", "list", "nested", "missing"}
    \* the NAME under which the file sits in the link directory: <step>.<8 characters>.link, where the
    \* directory scan accepts any 8 characters (the key-id prefix is text an attacker chooses, too)
    [] f = "filename"    -> {"prefix8", "eight_3byte", "four_ascii_four_3byte", "eight_2byte", "eight_4byte", "one_3byte_seven_ascii",
                             "uppercase_prefix", "directory_named_like_a_link",
                             \* evidence = a sub-layout delegating the same step to the same key again, its
                             \* sub-directory a symbolic link back to the link directory (must end in an error)
                             "self_delegation_through_a_directory_link"}
    [] f = "expires"     -> {"ok", "garbage", "year0", "year9999", "year10000", "leap_second", "empty", "number", "past"}
    [] f = "keytable"    -> {"ok", "id_mismatch", "garbage_hex", "odd_hex", "not_pem", "truncated_pem", "unknown_type", "scheme_mismatch", "empty"}
    [] f = "step_name"   -> {"plain", "empty", "slash", "dotdot", "glob_open", "glob_star", "nonascii", "duplicate"}
    [] f = "threshold"   -> {"one", "zero", "u32max", "negative", "too_big", "float", "string"}
    [] f = "pubkeys"     -> {"ok", "multibyte", "short", "empty_list", "not_list"}
    [] f = "rule"        -> {"ok", "bad_glob", "recursive_glob", "short", "long", "lowercase", "not_list", "empty_pattern"}
    [] f = "inspect"     -> {"none", "empty_run", "missing_cmd", "weird_name"}
    [] f = "readme"      -> {"plain", "controls", "number"}
    [] f = "sigs"        -> {"owner", "none", "multibyte_keyid"}
    \* what the link directory holds for the layout's steps: a valid link each, nothing, only links by a key the step
    \* does not authorise, only links whose signature does not verify
    [] f = "links"       -> {"present", "absent", "by_other_key", "bad_signature"}
    [] f = "item_paths"  -> {"plain", "dot_slash_both", "dotdot", "absolute", "empty", "nonascii", "trailing_slash"}
    [] f = "ref_paths"   -> {"plain", "dot_slash_both", "absolute", "missing_step"}
    [] f = "pattern"     -> {"plain", "bad_glob", "recursive_glob", "empty", "nonascii", "only_star"}
    [] f = "prefix"      -> {"none", "plain", "empty", "slash", "dotdot", "trailing_slash"}
    [] f = "from"        -> {"present", "absent", "self"}
    [] f = "form"        -> {"spki_ed25519", "spki_rsa", "spki_ecdsa", "pem", "pkcs8_ed25519", "pkcs8_rsa", "pkcs8_ecdsa",
                             "raw_ed25519", "raw_ecdsa", "keyid_str", "sig_hex", "pubkey_json"}
    [] f = "damage"      -> {"none", "empty", "truncate1", "truncate_half", "wrong_oid", "garbage", "trailing", "bitflip", "text", "huge",
                             \* structurally valid DER whose inner fields are degenerate
                             "empty_bitstring", "only_unused_octet", "nonzero_unused", "empty_oid", "empty_algid", "long_form_length",
                             "empty_octets", "nested_empty"}

\* the usual class of every field, spelled out (a field may have several harmless-looking classes)
DefaultOf(f) ==
  CASE f \in {"sig_keyid", "sig_value", "digest", "expires", "keytable", "pubkeys", "rule"} -> "ok"
    [] f \in {"signatures", "threshold"} -> "one"
    [] f = "type" -> "link"
    [] f \in {"name", "paths", "step_name", "readme", "item_paths", "ref_paths", "pattern"} -> "plain"
    [] f = "command" -> "list"
    [] f = "byproducts" -> "normal"
    [] f = "environment" -> "null"
    [] f = "filename" -> "prefix8"
    [] f \in {"inspect", "prefix", "damage"} -> "none"
    [] f = "sigs" -> "owner"
    [] f \in {"links", "from"} -> "present"
    [] f = "form" -> "spki_ed25519"
ASSUME \A k \in Kinds : \A f \in FieldsOf(k) : DefaultOf(f) \in ClassesOf(f)

EntryPointsOf(k) ==
  CASE k = "linkfile" -> {"parse_block", "parse_wrapper", "block_verify", "final_product_verification"}
    [] k = "layout"   -> {"parse_block", "final_product_verification"}
    [] k = "rules"    -> {"rule_application"}
    [] k = "keymat"   -> {"key_import"}

VARIABLES kind, doc, pc, calls
bvars == <<kind, doc, pc, calls>>

DefaultDoc(k) == [f \in FieldsOf(k) |-> DefaultOf(f)]
Docs(k) ==
  {DefaultDoc(k)}
  \cup {[DefaultDoc(k) EXCEPT ![f] = c] : f \in FieldsOf(k), c \in UNION {ClassesOf(x) : x \in FieldsOf(k)}}
  \cup {[DefaultDoc(k) EXCEPT ![p[1]] = c, ![p[2]] = e] :
          p \in FieldsOf(k) \X FieldsOf(k), c \in UNION {ClassesOf(x) : x \in FieldsOf(k)},
          e \in UNION {ClassesOf(x) : x \in FieldsOf(k)}}
WellTyped(k, d) == \A f \in FieldsOf(k) : d[f] \in ClassesOf(f)

BInit == kind \in Kinds /\ doc \in {d \in Docs(kind) : WellTyped(kind, d)} /\ pc = "offer" /\ calls = {}

\* offering the document to one entry point yields a value or an error - nothing else
Offer(e) ==
  /\ pc = "offer" /\ e \in EntryPointsOf(kind) \ {c.entry : c \in calls}
  /\ \E r \in {"value", "error"} : calls' = calls \cup {[entry |-> e, res |-> r]}
  /\ UNCHANGED <<kind, doc, pc>>

Finish ==
  /\ pc = "offer" /\ {c.entry : c \in calls} = EntryPointsOf(kind)
  /\ pc' = "done" /\ UNCHANGED <<kind, doc, calls>>

BNext == (\E e \in EntryPointsOf(kind) : Offer(e)) \/ Finish
Total == \A c \in calls : c.res \in {"value", "error"}
=============================================================================
