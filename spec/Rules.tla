------------------------------- MODULE Rules -------------------------------
(* State-machine presentation of the artifact-rule algorithm of             *)
(* RulesCore.tla: one Apply step per rule, one NextList step per list.      *)
EXTENDS RulesCore

-----------------------------------------------------------------------------
(* State-machine presentation.                                              *)
VARIABLES item, links, dev, phase, idx, queue, res, last

rvars == <<item, links, dev, phase, idx, queue, res, last>>

RulesOf(ph) == IF ph = "M" THEN item.em ELSE item.ep
ArtsOf(ph)  == IF ph = "M" THEN links[item.name].mats ELSE links[item.name].prods

RInitRest ==
  /\ phase = "M" /\ idx = 1 /\ last = [k |-> "none"]
  /\ IF item.name \in DOMAIN links
     THEN queue = Paths(links[item.name].mats) /\ res = "run"
     ELSE queue = {} /\ res = "err"

\* one rule of the current list
Apply ==
  /\ res = "run" /\ idx <= Len(RulesOf(phase))
  /\ LET rule == RulesOf(phase)[idx]
         r == ApplyRule(rule, links[item.name], ArtsOf(phase), queue, links, dev)
     IN /\ last' = [k |-> "rule", rule |-> rule, consumed |-> r.consumed, fail |-> r.fail]
        /\ IF r.fail
           THEN res' = "err" /\ UNCHANGED <<queue, idx, phase>>
           ELSE queue' = queue \ r.consumed /\ idx' = idx + 1
                /\ UNCHANGED <<res, phase>>
  /\ UNCHANGED <<item, links, dev>>

\* end of a list
NextList ==
  /\ res = "run" /\ idx > Len(RulesOf(phase))
  /\ last' = [k |-> "list"]
  /\ IF phase = "M"
     THEN phase' = "P" /\ idx' = 1 /\ queue' = Paths(links[item.name].prods)
          /\ UNCHANGED res
     ELSE res' = "ok" /\ UNCHANGED <<phase, idx, queue>>
  /\ UNCHANGED <<item, links, dev>>

RNext == Apply \/ NextList

Terminal == res \in {"ok", "err"}

\* the two presentations agree
Agree == Terminal => ((res = "ok") <=> ItemOk(item, links, dev))

\* C03 second sentence as an action property of the intended algorithm
ConsumeOnlyMatching ==
  [][dev = {} /\ last'.k = "rule" =>
        \A p \in last'.consumed : MayConsume(last'.rule, p)]_rvars

\* within one list the queue only shrinks
QueueShrinks == [][phase' = phase => queue' \subseteq queue]_rvars
=============================================================================
